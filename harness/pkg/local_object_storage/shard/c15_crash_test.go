//go:build verif

package shard

// C15 – "After a crash, every object the metadata lists as available is readable".
//
// Fault enumeration.  For every scripted history of <= 10 shard operations (put, repeated
// put, direct delete, redundant / default garbage marks, tombstones, epoch advance, GC
// passes, explicit and background write-cache flushes; write-cache on and off) a dry-run
// child process records every step boundary (hook points of shard put/delete, write-cache
// put/delete/flush, optionally the FSTree syscall points) the history passes.  Then, for
// EVERY (point, k-th hit), a fresh child replays the history on a fresh store and is
// SIGKILLed exactly there.  The parent reopens the store (no resync) and demands the
// statement: every address the metadata reports as available is returned in full by the
// shard's read calls with the bytes that were put.
//
// Besides these sequential histories there are overlapping ones (vf15GenOverlapHist): the
// cache's background flusher is advanced to some of its own step boundaries and held there
// while operations on members of the batch in flight execute (vf15Ctl), so that the steps
// of put / delete / GC interleave with the steps of a flush round the way the script says.
// Every complete run is also judged after a clean stop behind its last operation.
//
// A third family (vf15GenModeHist) are short histories on a shard that went through a mode
// round trip (read-only and back), i.e. whose components were set up by a mode switch and
// not by the start; their crash points go down to the syscall points of the file writes in
// every tier.  And no recovery ends with the first look at the restarted shard: the shard
// goes on (vf15Continuation: the interrupted put is repeated, members are put again, the
// cache is flushed, possibly another mode round trip), is stopped cleanly and started a
// second time, and the same statement is demanded after the continuation and after the
// second restart (vf15Continue).
//
// The oracle knows nothing about the order of the component steps: it only compares what
// the metabase says with what can be read.

import (
	"bytes"
	"encoding/json"
	"fmt"
	"io"
	"io/fs"
	"os"
	"path/filepath"
	"sort"
	"strings"
	"sync"
	"sync/atomic"
	"syscall"
	"testing"
	"time"

	"github.com/nspcc-dev/neofs-node/internal/verifhook"
	"github.com/nspcc-dev/neofs-node/internal/verifkit"
	"github.com/nspcc-dev/neofs-node/pkg/local_object_storage/blobstor/fstree"
	meta "github.com/nspcc-dev/neofs-node/pkg/local_object_storage/metabase"
	"github.com/nspcc-dev/neofs-node/pkg/local_object_storage/shard/mode"
	"github.com/nspcc-dev/neofs-node/pkg/local_object_storage/writecache"
	cid "github.com/nspcc-dev/neofs-sdk-go/container/id"
	"github.com/nspcc-dev/neofs-sdk-go/object"
	oid "github.com/nspcc-dev/neofs-sdk-go/object/id"
	"go.uber.org/zap"
)

const (
	vf15OpMark   = "vf15.op" // marker the child drops into the point log at the start of every operation
	vf15TombExp  = 100       // expiration epoch of every tombstone
	vf15ObjExp   = 50        // expiration epoch of the expiring universe members
	vf15NewEpoch = 150       // epoch the "epoch" operation announces (everything expiring has expired)
)

type vf15Epoch struct{ v atomic.Uint64 }

func (e *vf15Epoch) CurrentEpoch() uint64 { return e.v.Load() }

type vf15NoPayments struct{}

func (vf15NoPayments) PaymentsDisabled() bool            { return true }
func (vf15NoPayments) UnpaidSince(cid.ID) (int64, error) { return -1, nil }

type vf15Op struct {
	Kind string `json:"kind"` // put | delete | mark-redundant | mark-garbage | tombstone | epoch | gc | flush | bgflush | bg | mode-cycle
	Obj  int    `json:"obj"`
	// Gate (kind "bg" only): the background flusher is let run until it stands at its next step
	// boundary of this kind and is HELD there while the following operations of the script
	// execute: scheduled (batch formed, not handed over) | taken (worker has the batch, nothing
	// read) | read (cache copies read, nothing written) | stored (written to the main storage,
	// cache copies not removed yet) | done (round finished) | idle (run until the cache is empty).
	Gate string `json:"gate,omitempty"`
}

func vf15NoArg(kind string) bool {
	switch kind {
	case "gc", "flush", "bgflush", "epoch", "mode-cycle":
		return true
	}
	return false
}

// vf15ModeCycle is the "mode-cycle" operation: the shard is switched to read-only and back
// to read-write (maintenance round trip).  Every component is re-opened by it; from then on
// the shard works with whatever its components set up on a mode switch (which differs from
// what they set up on start, e.g. in the file writer the write-cache uses).
func vf15ModeCycle(sh *Shard) error {
	if err := sh.SetMode(mode.ReadOnly); err != nil {
		return err
	}
	return sh.SetMode(mode.ReadWrite)
}

func (o vf15Op) String() string {
	if o.Kind == "bg" {
		return "bg(" + o.Gate + ")"
	}
	if vf15NoArg(o.Kind) {
		return o.Kind
	}
	return fmt.Sprintf("%s(%d)", o.Kind, o.Obj)
}

// vf15GateKinds: the flusher step boundaries a history may hold the flusher at, in the order
// one flush round passes them.
var vf15GateKinds = []string{"scheduled", "taken", "read", "stored", "done"}

// vf15GateOf maps an instrumentation point to the flusher boundary kind it marks ("" if it
// is not one).  The flushSingle points are shared with the explicit (foreground) flush.
func vf15GateOf(name string, fgFlush bool) string {
	switch name {
	case "writecache.sched.handoff":
		return "scheduled"
	case "writecache.worker.got":
		return "taken"
	case "writecache.flushBatch.read":
		return "read"
	case "writecache.flushBatch.stored":
		return "stored"
	case "writecache.flushBatch.deleted":
		return "removed"
	case "writecache.worker.done":
		return "done"
	}
	if !fgFlush {
		switch name {
		case "writecache.flushSingle.read":
			return "read"
		case "writecache.flushSingle.stored":
			return "stored"
		case "writecache.flushSingle.deleted":
			return "removed"
		}
	}
	return ""
}

// vf15Ctl makes the interleaving of the background flusher with the scripted operations a
// function of the script: the flusher's goroutines stand still at their step boundaries
// unless a "bgflush"/"bg" operation lets them advance, and a "bg(gate)" operation ends as
// soon as one of them stands at the wanted boundary.  So at any moment either the script or
// the flusher moves, never both, and the dry run and the crash children walk the same path.
type vf15Ctl struct {
	mu      sync.Mutex
	cond    *sync.Cond
	free    bool   // nothing is held any more (shutdown, or an operation was blocked by the held flusher)
	adv     bool   // a bg operation is letting the flusher advance
	target  string // boundary kind the running bg operation wants the flusher held at
	gen     int    // number of bg operations started
	reached bool
	fgFlush atomic.Bool
	hits    atomic.Int64
}

func vf15NewCtl() *vf15Ctl {
	c := new(vf15Ctl)
	c.cond = sync.NewCond(&c.mu)
	return c
}

func (c *vf15Ctl) onPoint(name string, _ int) {
	c.hits.Add(1)
	kind := vf15GateOf(name, c.fgFlush.Load())
	if kind == "" {
		return
	}
	c.mu.Lock()
	defer c.mu.Unlock()
	for !c.free {
		if !c.adv {
			c.cond.Wait() // stand still until the script lets the flusher move
			continue
		}
		if kind != c.target {
			return
		}
		// the wanted boundary: the bg operation is over, stand here until the next one
		c.adv, c.reached = false, true
		my := c.gen
		c.cond.Broadcast()
		for !c.free && c.gen == my {
			c.cond.Wait()
		}
		return
	}
}

func (c *vf15Ctl) setFree() {
	c.mu.Lock()
	c.free = true
	c.cond.Broadcast()
	c.mu.Unlock()
}

// advance is the body of a bg operation.  Waiting ends on logical conditions (boundary
// reached / cache empty); the time bounds only stop waiting for something that will not
// come (they decide which crash points exist, never a verdict).
func (c *vf15Ctl) advance(target, dir string) (string, error) {
	c.mu.Lock()
	c.target, c.reached, c.adv = target, false, true
	c.gen++
	c.cond.Broadcast()
	c.mu.Unlock()
	defer func() {
		c.mu.Lock()
		c.adv = false
		c.mu.Unlock()
	}()
	quiet, bound := 400*time.Millisecond, 4*time.Second
	if target != "idle" {
		quiet, bound = 1500*time.Millisecond, 6*time.Second
	}
	start, seen, last, lastAt := time.Now(), c.hits.Load(), c.hits.Load(), time.Now()
	for {
		c.mu.Lock()
		reached := c.reached
		c.mu.Unlock()
		if reached {
			return "held=" + target, nil
		}
		files := vf15CacheFiles(dir)
		if target == "idle" && files == 0 {
			return "idle", nil
		}
		now := c.hits.Load()
		if now != last {
			last, lastAt = now, time.Now()
		}
		if (now != seen || files == 0) && time.Since(lastAt) > quiet {
			return "", fmt.Errorf("flusher went quiet with %d files left", files)
		}
		if time.Since(start) > bound {
			return "", fmt.Errorf("flusher left %d files", files)
		}
		time.Sleep(2 * time.Millisecond)
	}
}

// foreground runs one scripted operation while the flusher stands still.  Should the
// operation need something the held flusher owns, the flusher is let go for good (liveness
// of the harness only).
func (c *vf15Ctl) foreground(f func() error) (err error, blocked bool) {
	done := make(chan error, 1)
	go func() { done <- f() }()
	select {
	case err = <-done:
		return err, false
	case <-time.After(20 * time.Second):
		c.setFree()
		return <-done, true
	}
}

type vf15Spec struct {
	Dir       string   `json:"dir"`
	WC        bool     `json:"wc"`
	Thr       uint64   `json:"thr"`
	BCount    int      `json:"bcount"`
	Objects   [][]byte `json:"objects"`    // canonical binaries of the universe
	Tombs     [][]byte `json:"tombstones"` // tombstone object for universe member i
	Ops       []vf15Op `json:"ops"`
	CrashName string   `json:"crash_name,omitempty"`
	CrashK    int      `json:"crash_k,omitempty"`
	Out       string   `json:"out"`
	Journal   string   `json:"journal"`
}

// vf15Open builds the shard the way the node does (FSTree blobstor with its default
// writer, bbolt metabase, write-cache), with GC passes and epochs driven by the caller.
// Expired objects are handed to a callback that does what the engine's callback does:
// Shard.Delete.
func vf15Open(dir string, wc bool, thr uint64, bcount int, ep *vf15Epoch) (*Shard, error) {
	var sh *Shard
	sh = New(
		WithLogger(zap.NewNop()),
		WithBlobstor(fstree.New(fstree.WithPath(filepath.Join(dir, "blob")), fstree.WithDepth(1))),
		WithMetaBaseOptions(meta.WithPath(filepath.Join(dir, "meta")), meta.WithEpochState(ep),
			meta.WithLogger(zap.NewNop()), meta.WithMaxBatchDelay(time.Microsecond)),
		WithWriteCache(wc),
		WithWriteCacheOptions(writecache.WithPath(filepath.Join(dir, "wc")), writecache.WithLogger(zap.NewNop()),
			writecache.WithFlushWorkersCount(1), writecache.WithMaxFlushBatchThreshold(thr), writecache.WithMaxFlushBatchCount(bcount)),
		WithGCRemoverSleepInterval(240*time.Hour),
		WithContainerPayments(vf15NoPayments{}),
		WithExpiredObjectsCallback(func(addrs []oid.Address) {
			for _, a := range addrs {
				_ = sh.Delete(a.Container(), []oid.ID{a.Object()})
			}
		}),
	)
	if err := sh.Open(); err != nil {
		return nil, err
	}
	if err := sh.Init(); err != nil {
		return nil, err
	}
	sh.gc.currentEpoch.Store(ep.CurrentEpoch())
	return sh, nil
}

func vf15CacheFiles(dir string) int {
	n := 0
	_ = filepath.WalkDir(filepath.Join(dir, "wc"), func(p string, d fs.DirEntry, err error) error {
		if err == nil && !d.IsDir() && !strings.HasPrefix(d.Name(), ".") {
			n++
		}
		return nil
	})
	return n
}

func vf15Unmarshal(raws [][]byte) []*object.Object {
	var out []*object.Object
	for _, raw := range raws {
		o := new(object.Object)
		if err := o.Unmarshal(raw); err != nil {
			fmt.Println("child: bad object in spec:", err)
			os.Exit(4)
		}
		out = append(out, o)
	}
	return out
}

// vf15Child replays the scripted history; with a crash point armed the process dies there.
func vf15Child(specPath string) {
	b, err := os.ReadFile(specPath)
	if err != nil {
		fmt.Println("child: read spec:", err)
		os.Exit(4)
	}
	var sp vf15Spec
	if err := json.Unmarshal(b, &sp); err != nil {
		fmt.Println("child: spec:", err)
		os.Exit(4)
	}
	objs, tombs := vf15Unmarshal(sp.Objects), vf15Unmarshal(sp.Tombs)
	ep := new(vf15Epoch)
	sh, err := vf15Open(sp.Dir, sp.WC, sp.Thr, sp.BCount, ep)
	if err != nil {
		fmt.Println("child: open:", err)
		os.Exit(4)
	}
	j, err := verifkit.OpenJournal(sp.Journal)
	if err != nil {
		fmt.Println("child: journal:", err)
		os.Exit(4)
	}
	h := verifkit.InstallHooks()
	// The cache's own flusher (scheduler with its 1 s tick + one worker) stands still at its
	// step boundaries except while a "bgflush"/"bg" operation runs, so that which operation a
	// background flush interleaves with is decided by the history and not by machine load.
	ctl := vf15NewCtl()
	h.OnPoint(ctl.onPoint)
	if sp.CrashName != "" {
		h.CrashAt(sp.CrashName, sp.CrashK)
	}
	for i, op := range sp.Ops {
		verifhook.Point(vf15OpMark)
		var (
			err     error
			note    string
			blocked bool
		)
		switch op.Kind {
		case "bgflush":
			// Let the cache's own scheduler work: until the cache is empty, or it has gone
			// quiet after at least one hand-off (objects may legitimately stay behind), or a
			// generous bound.  Only decides WHICH crash points exist, never a verdict.
			note, err = ctl.advance("idle", sp.Dir)
		case "bg":
			note, err = ctl.advance(op.Gate, sp.Dir)
		default:
			err, blocked = ctl.foreground(func() error {
				switch op.Kind {
				case "put":
					return sh.Put(objs[op.Obj], sp.Objects[op.Obj])
				case "delete":
					a := objs[op.Obj].Address()
					return sh.Delete(a.Container(), []oid.ID{a.Object()})
				case "mark-redundant":
					a := objs[op.Obj].Address()
					return sh.MarkGarbage(a.Container(), []oid.ID{a.Object()}, meta.GarbageMarkRedundant)
				case "mark-garbage":
					a := objs[op.Obj].Address()
					return sh.MarkGarbage(a.Container(), []oid.ID{a.Object()}, meta.GarbageMarkDefault)
				case "tombstone":
					return sh.Put(tombs[op.Obj], sp.Tombs[op.Obj])
				case "epoch":
					ep.v.Store(vf15NewEpoch)
					sh.setEpochEventHandler(EventNewEpoch(vf15NewEpoch))
				case "gc":
					sh.removeGarbage()
				case "mode-cycle":
					return vf15ModeCycle(sh)
				case "flush":
					ctl.fgFlush.Store(true)
					defer ctl.fgFlush.Store(false)
					return sh.FlushWriteCache(false)
				}
				return nil
			})
		}
		res := "ok"
		if err != nil {
			res = "err " + err.Error()
		} else if note != "" {
			res = "ok " + note
		}
		if blocked {
			res += " (blocked by the held flusher)"
		}
		j.Append(fmt.Sprintf("%d %s %s", i, op, res))
	}
	order := h.Order()
	ctl.setFree()
	h.Uninstall()
	ob, _ := json.Marshal(order)
	_ = os.WriteFile(sp.Out, ob, 0o644)
	_ = sh.Close()
	os.Exit(0)
}

type vf15Hist struct {
	idx   int
	wc    bool
	thr   uint64
	bc    int
	objs  []*object.Object
	bins  [][]byte
	tombs [][]byte
	ops   []vf15Op

	overlap   bool // operations execute while the flusher is held inside a flush round
	enumerate bool // crash points are enumerated (otherwise only the stop after the last operation is judged)
	firstBg   int  // overlap histories: index of the first bg operation
	syscalls  bool // the FSTree syscall points are crash points in the quick tier too (a stop inside one file write leaves partial files for what follows the restart)

	dryJournal  []string             // journal of the complete (dry) run
	cleanFailed map[oid.Address]bool // addresses already unreadable after the complete run + clean stop
}

// phase tells where the background flusher stood while operation i executed, according to
// the journal of the complete run: inside a flush round before the batch was written to the
// main storage, after that (cache copies not removed yet), or not inside a round.
func (hs *vf15Hist) phase(i int) string {
	held := ""
	for j := 0; j < i && j < len(hs.ops) && j < len(hs.dryJournal); j++ {
		if k := hs.ops[j].Kind; k != "bg" && k != "bgflush" {
			continue
		}
		held = ""
		if _, g, ok := strings.Cut(hs.dryJournal[j], " ok held="); ok {
			held = g
		}
	}
	switch held {
	case "scheduled", "taken", "read":
		return "flush-before-store"
	case "stored":
		return "flush-after-store"
	}
	return "flusher-idle"
}

// lastPut: index of the last operation of the script that stores the item, -1 if none.
func (hs *vf15Hist) lastPut(it vf15Item) int {
	kind := "put"
	if it.tomb {
		kind = "tombstone"
	}
	pi := -1
	for i, op := range hs.ops {
		if op.Kind == kind && op.Obj == it.obj {
			pi = i
		}
	}
	return pi
}

// cleanKey names the history shape that left an item listed but unreadable although no
// operation was interrupted: where the flusher stood when the lost copy was put, and which
// operation (direct delete or GC pass) had last removed things before that, and where the
// flusher stood then.
func (hs *vf15Hist) cleanKey(it vf15Item) string {
	pi := hs.lastPut(it)
	if pi < 0 {
		return "never-put"
	}
	removed := "none"
	for i := pi - 1; i >= 0 && removed == "none"; i-- {
		op := hs.ops[i]
		switch {
		case op.Kind == "delete" && op.Obj == it.obj && !it.tomb:
			removed = "delete@" + hs.phase(i)
		case op.Kind == "gc":
			// a GC pass counts when something had given it a reason to collect the item
			for j := 0; j < i; j++ {
				switch m := hs.ops[j]; {
				case m.Kind == "epoch", !it.tomb && m.Obj == it.obj && (m.Kind == "mark-redundant" || m.Kind == "mark-garbage" || m.Kind == "tombstone"):
					removed = "gc@" + hs.phase(i)
				}
			}
		}
	}
	return fmt.Sprintf("put@%s|removed-by=%s", hs.phase(pi), removed)
}

func (hs *vf15Hist) describe() map[string]any {
	var ops []string
	for _, o := range hs.ops {
		ops = append(ops, o.String())
	}
	var sizes []int
	for _, b := range hs.bins {
		sizes = append(sizes, len(b))
	}
	return map[string]any{"history": hs.idx, "write_cache": hs.wc, "batch_threshold": hs.thr, "batch_count": hs.bc, "object_sizes": sizes, "ops": ops}
}

func vf15GenHist(r *verifkit.Run, idx int) *vf15Hist {
	rng := r.Rand("hist", idx)
	hs := &vf15Hist{idx: idx, wc: idx%4 != 3, thr: 2048, bc: 2 + rng.IntN(3)}
	cnr, owner := verifkit.RandCID(rng), verifkit.RandUser(rng)
	n := 3 + rng.IntN(3)
	for i := 0; i < n; i++ {
		pl := 32 + 40*i + rng.IntN(30) // distinct sizes: the flush scheduler orders by size
		if rng.IntN(3) == 0 {
			pl = 2100 + 500*i + rng.IntN(400) // above the batch threshold: flushed alone
		}
		o := verifkit.NewObject(rng, cnr, owner, pl)
		if rng.IntN(4) == 0 {
			verifkit.SetExpiration(o, vf15ObjExp)
		}
		hs.objs = append(hs.objs, o)
		hs.bins = append(hs.bins, o.Marshal())
		ts := verifkit.NewObject(rng, cnr, owner, 0)
		ts.SetType(object.TypeTombstone)
		ts.AssociateDeleted(o.GetID())
		verifkit.SetExpiration(ts, vf15TombExp)
		hs.tombs = append(hs.tombs, ts.Marshal())
	}
	put := map[int]bool{}
	epochDone := false
	nOps := 7 + rng.IntN(4)
	for len(hs.ops) < nOps {
		var kinds []string
		if len(put) < n {
			kinds = append(kinds, "put", "put", "put")
		}
		if len(put) > 0 {
			kinds = append(kinds, "put-again", "delete", "delete", "mark-redundant", "mark-redundant", "mark-garbage", "tombstone", "gc", "gc")
			if hs.wc {
				kinds = append(kinds, "flush", "bgflush")
			}
			if !epochDone && len(hs.ops) >= 3 {
				kinds = append(kinds, "epoch")
			}
		}
		k := kinds[rng.IntN(len(kinds))]
		var have []int
		for i := range put {
			have = append(have, i)
		}
		sort.Ints(have)
		switch k {
		case "put":
			i := rng.IntN(n)
			for put[i] {
				i = (i + 1) % n
			}
			put[i] = true
			hs.ops = append(hs.ops, vf15Op{Kind: "put", Obj: i})
		case "put-again":
			hs.ops = append(hs.ops, vf15Op{Kind: "put", Obj: have[rng.IntN(len(have))]})
		case "epoch":
			epochDone = true
			hs.ops = append(hs.ops, vf15Op{Kind: k})
		case "gc", "flush", "bgflush":
			hs.ops = append(hs.ops, vf15Op{Kind: k})
		default:
			hs.ops = append(hs.ops, vf15Op{Kind: k, Obj: have[rng.IntN(len(have))]})
		}
	}
	// marks meet a GC pass, cached data meets a flush: the last operation is a GC pass or
	// (every second cached history) a background flush.  Still <= 10 operations.
	if len(hs.ops) == 10 {
		hs.ops = hs.ops[:9]
	}
	if hs.wc && idx%2 == 0 {
		hs.ops = append(hs.ops, vf15Op{Kind: "bgflush"})
	} else {
		hs.ops = append(hs.ops, vf15Op{Kind: "gc"})
	}
	return hs
}

// vf15GenOverlapHist: a history whose operations overlap ONE OR TWO background flush rounds.
// Two or three small objects are cached, then the flusher is advanced to 2-3 of its step
// boundaries (in round order) and held at each while 1-2 operations execute, most of them on
// one member of the cached set (removed, marked, collected, put back, put again, flushed
// explicitly ...); finally the flusher runs until the cache is empty.  <= 10 operations.
func vf15GenOverlapHist(r *verifkit.Run, idx int) *vf15Hist {
	rng := r.Rand("overlap", idx)
	hs := &vf15Hist{idx: 1000 + idx, wc: true, thr: 2048, bc: 2 + rng.IntN(3), overlap: true}
	cnr, owner := verifkit.RandCID(rng), verifkit.RandUser(rng)
	n := 3 + rng.IntN(2)
	for i := 0; i < n; i++ {
		pl := 32 + 40*i + rng.IntN(30)
		if i >= 2 && rng.IntN(4) == 0 {
			pl = 2100 + 500*i + rng.IntN(400)
		}
		o := verifkit.NewObject(rng, cnr, owner, pl)
		hs.objs = append(hs.objs, o)
		hs.bins = append(hs.bins, o.Marshal())
		ts := verifkit.NewObject(rng, cnr, owner, 0)
		ts.SetType(object.TypeTombstone)
		ts.AssociateDeleted(o.GetID())
		verifkit.SetExpiration(ts, vf15TombExp)
		hs.tombs = append(hs.tombs, ts.Marshal())
	}
	p := 2 + rng.IntN(2)
	for i := 0; i < p; i++ {
		hs.ops = append(hs.ops, vf15Op{Kind: "put", Obj: i})
	}
	hs.firstBg = p
	v := rng.IntN(p)
	w := 2
	if rng.IntN(5) < 2 {
		w = 3
	}
	pick := rng.Perm(len(vf15GateKinds))[:w]
	sort.Ints(pick)
	extra := 10 - p - w - 1 - w // operations beyond one per window
	put := map[int]bool{}
	for i := 0; i < p; i++ {
		put[i] = true
	}
	listed, marked := true, false
	other := func() vf15Op {
		for i := 0; i < n; i++ {
			if !put[i] {
				put[i] = true
				return vf15Op{Kind: "put", Obj: i}
			}
		}
		o := rng.IntN(n)
		if o == v {
			o = (o + 1) % n
		}
		return vf15Op{Kind: []string{"delete", "mark-redundant", "put"}[rng.IntN(3)], Obj: o}
	}
	for _, g := range pick {
		hs.ops = append(hs.ops, vf15Op{Kind: "bg", Gate: vf15GateKinds[g]})
		k := 1
		if extra > 0 && rng.IntN(5) < 2 {
			k, extra = 2, extra-1
		}
		for ; k > 0; k-- {
			x := rng.IntN(100)
			var op vf15Op
			switch {
			case listed && x < 50:
				op, listed, marked = vf15Op{Kind: "delete", Obj: v}, false, false
			case listed && x < 60:
				op, marked = vf15Op{Kind: "mark-redundant", Obj: v}, true
			case listed && x < 68:
				op = vf15Op{Kind: "gc"}
				if marked {
					listed, marked = false, false
				}
			case listed && x < 76:
				op = vf15Op{Kind: "put", Obj: v}
			case listed && x < 84:
				op = other()
			case listed && x < 90:
				op = vf15Op{Kind: "flush"}
			case listed && x < 95:
				op, listed = vf15Op{Kind: "mark-garbage", Obj: v}, false
			case listed:
				op, listed = vf15Op{Kind: "tombstone", Obj: v}, false
			case x < 75:
				op, listed = vf15Op{Kind: "put", Obj: v}, true
			case x < 85:
				op = vf15Op{Kind: "gc"}
			case x < 95:
				op = other()
			default:
				op = vf15Op{Kind: "flush"}
			}
			hs.ops = append(hs.ops, op)
		}
	}
	hs.ops = append(hs.ops, vf15Op{Kind: "bg", Gate: "idle"})
	return hs
}

// vf15GenModeHist: a short history (<= 6 operations, write-cache on) on a shard that, in 3 of
// 4 histories, goes through a mode round trip (read-only and back) before or between its puts,
// so that the operations run on components set up by a mode switch and not by the start.  The
// syscall points inside the file writes are crash points of these histories in every tier:
// what a stop inside one write leaves on disk is what the continuation after the restart
// (vf15Continuation) has to cope with.
func vf15GenModeHist(r *verifkit.Run, idx int) *vf15Hist {
	rng := r.Rand("modehist", idx)
	hs := &vf15Hist{idx: 2000 + idx, wc: true, thr: 2048, bc: 2 + rng.IntN(3), syscalls: true}
	cnr, owner := verifkit.RandCID(rng), verifkit.RandUser(rng)
	n := 3
	for i := 0; i < n; i++ {
		pl := 32 + 40*i + rng.IntN(30)
		if rng.IntN(3) == 0 {
			pl = 2100 + 500*i + rng.IntN(400)
		}
		o := verifkit.NewObject(rng, cnr, owner, pl)
		hs.objs = append(hs.objs, o)
		hs.bins = append(hs.bins, o.Marshal())
		ts := verifkit.NewObject(rng, cnr, owner, 0)
		ts.SetType(object.TypeTombstone)
		ts.AssociateDeleted(o.GetID())
		verifkit.SetExpiration(ts, vf15TombExp)
		hs.tombs = append(hs.tombs, ts.Marshal())
	}
	cyclePos := -1 // every fourth history: no mode round trip at all
	switch idx % 4 {
	case 0, 1:
		cyclePos = 0 // before everything else
	case 2:
		cyclePos = 1 // after the first put
	}
	put := map[int]bool{}
	nOps := 3 + rng.IntN(2)
	for k := 0; k < nOps; k++ {
		if len(hs.ops) == cyclePos {
			hs.ops = append(hs.ops, vf15Op{Kind: "mode-cycle"})
		}
		var have []int
		for i := 0; i < n; i++ {
			if put[i] {
				have = append(have, i)
			}
		}
		kinds := []string{"put-again", "flush", "delete", "mark-redundant", "gc"}
		if len(put) < n {
			kinds = append(kinds, "put", "put", "put", "put")
		}
		kind := kinds[rng.IntN(len(kinds))]
		if len(have) == 0 {
			kind = "put"
		}
		switch kind {
		case "put":
			i := rng.IntN(n)
			for put[i] {
				i = (i + 1) % n
			}
			put[i] = true
			hs.ops = append(hs.ops, vf15Op{Kind: "put", Obj: i})
		case "put-again":
			hs.ops = append(hs.ops, vf15Op{Kind: "put", Obj: have[rng.IntN(len(have))]})
		case "flush", "gc":
			hs.ops = append(hs.ops, vf15Op{Kind: kind})
		default:
			hs.ops = append(hs.ops, vf15Op{Kind: kind, Obj: have[rng.IntN(len(have))]})
		}
	}
	return hs
}

// vf15Continuation: what the restarted node goes on with after the recovery check.  The
// request that was in progress when the node stopped was never acknowledged, so whoever sent
// it sends it again: an interrupted put / tombstone put is repeated first; otherwise some
// member of the universe is put (again).  Up to two more operations follow (puts of members,
// an explicit flush of the cache, a mode round trip), and in half of the cases the node goes
// through a mode round trip before all of them.  Removals are left out on purpose: the continuation runs
// with the cache's flusher moving freely, and a removal + re-put racing with a flush round is
// the business of the overlapping histories.  A function of (seed, history, crash point) only.
func vf15Continuation(r *verifkit.Run, jb *vf15Job, journal []string) []vf15Op {
	rng := r.Rand(fmt.Sprintf("cont|%s", jb.name), jb.hs.idx*1000+jb.k)
	n := len(jb.hs.objs)
	var ops []vf15Op
	first := vf15Op{Kind: "put", Obj: rng.IntN(n)}
	if len(journal) < len(jb.hs.ops) {
		if ip := jb.hs.ops[len(journal)]; ip.Kind == "put" || ip.Kind == "tombstone" {
			first = ip
		}
	}
	if rng.IntN(2) == 0 {
		ops = append(ops, vf15Op{Kind: "mode-cycle"}) // maintenance right after the restart
	}
	ops = append(ops, first)
	for k := rng.IntN(3); k > 0; k-- {
		switch x := rng.IntN(6); {
		case x < 2 && jb.hs.wc:
			ops = append(ops, vf15Op{Kind: "flush"})
		case x == 2:
			ops = append(ops, vf15Op{Kind: "mode-cycle"})
		default:
			ops = append(ops, vf15Op{Kind: "put", Obj: rng.IntN(n)})
		}
	}
	return ops
}

type vf15Job struct {
	hs    *vf15Hist
	name  string
	k     int
	step  string // last shard-level step point passed in the operation in progress (from the dry run)
	dry   bool
	order []string
}

func vf15RunChild(r *verifkit.Run, base string, jb *vf15Job) (dir string, res verifkit.ChildResult, journal []string) {
	dir, err := os.MkdirTemp(base, fmt.Sprintf("c15-h%d-", jb.hs.idx))
	if err != nil {
		r.Inconclusive(err.Error())
		return "", res, nil
	}
	sp := vf15Spec{Dir: dir, WC: jb.hs.wc, Thr: jb.hs.thr, BCount: jb.hs.bc, Objects: jb.hs.bins, Tombs: jb.hs.tombs, Ops: jb.hs.ops,
		Out: filepath.Join(dir, "order.json"), Journal: filepath.Join(dir, "journal")}
	if !jb.dry {
		sp.CrashName, sp.CrashK = jb.name, jb.k
	}
	sb, _ := json.Marshal(sp)
	specPath := filepath.Join(dir, "spec.json")
	_ = os.WriteFile(specPath, sb, 0o644)
	res = verifkit.SpawnChild("TestVerif_C15", specPath, nil, 180*time.Second)
	if jb.dry {
		if ob, err := os.ReadFile(sp.Out); err == nil {
			_ = json.Unmarshal(ob, &jb.order)
		}
	}
	return dir, res, verifkit.ReadJournal(sp.Journal)
}

type vf15Item struct {
	addr oid.Address
	bin  []byte
	what string
	obj  int  // universe member
	tomb bool // the member's tombstone object
}

// vf15CheckAll applies the statement to every address of the universe: listed as
// available => every full read returns exactly the stored bytes.
// Addresses in skip (already reported for this recovery) are not judged again; the
// addresses judged unreadable are returned.
//
// keyOf gives the class key suffix for a failing item, or report=false when this failure is
// the one already reported for the same history (then it is only counted).
func vf15CheckAll(r *verifkit.Run, sh *Shard, items []vf15Item, desc map[string]any, keyOf func(vf15Item) (key string, report bool), phase, where string, skip map[oid.Address]bool) map[oid.Address]bool {
	listed := 0
	failed := map[oid.Address]bool{}
	for _, it := range items {
		if skip[it.addr] {
			continue
		}
		var (
			ex   bool
			eerr error
		)
		if r.Guard(desc, func() { ex, eerr = sh.Exists(it.addr, false) }) {
			continue
		}
		r.Count("addresses_checked"+phase, 1)
		if eerr != nil || !ex {
			r.Count("addresses_not_listed_as_available"+phase, 1)
			continue
		}
		listed++
		r.Count("addresses_listed_as_available"+phase, 1)
		// where does the data live (evidence only)
		inWC, inBlob := false, false
		if sh.hasWriteCache() {
			if _, err := sh.writeCache.GetBytes(it.addr); err == nil {
				inWC = true
			}
		}
		if _, err := sh.blobStor.GetBytes(it.addr); err == nil {
			inBlob = true
		}
		r.Seen("data_location_of_listed_objects", fmt.Sprintf("cache=%v,blob=%v", inWC, inBlob))
		var (
			got              *object.Object
			gerr, berr, lerr error
			gb, lb           []byte
			shdr             *object.Object
			spl              []byte
			serr             error
		)
		if r.Guard(desc, func() {
			got, gerr = sh.Get(it.addr, false)
			gb, berr = sh.GetBytes(it.addr)
			lb, lerr = sh.GetBytesWithMetadataLookup(it.addr)
			var rc io.ReadCloser
			shdr, rc, serr = sh.GetStream(it.addr, false)
			if serr == nil {
				spl, serr = io.ReadAll(rc)
				_ = rc.Close()
			}
		}) {
			continue
		}
		var want object.Object
		_ = want.Unmarshal(it.bin)
		key, report := keyOf(it)
		bad := func(call string, e error) {
			failed[it.addr] = true
			if !report {
				r.Count("failures_already_reported_for_the_complete_run_of_the_history", 1)
				return
			}
			r.Violation("listed-but-unreadable|"+key, fmt.Sprintf("%s: the metadata lists %s (%s) as available but %s cannot read it: %v (data in cache=%v, in blobstor=%v)", where, it.what, it.addr, call, e, inWC, inBlob), desc)
		}
		switch {
		case gerr != nil:
			bad("Get", gerr)
		case berr != nil:
			bad("GetBytes", berr)
		case lerr != nil:
			bad("GetBytesWithMetadataLookup", lerr)
		case serr != nil:
			bad("GetStream", serr)
		case !bytes.Equal(got.Marshal(), it.bin) || !bytes.Equal(gb, it.bin) || !bytes.Equal(lb, it.bin) ||
			!bytes.Equal(spl, want.Payload()) || shdr == nil || !bytes.Equal(shdr.CutPayload().Marshal(), want.CutPayload().Marshal()):
			failed[it.addr] = true
			if !report {
				r.Count("failures_already_reported_for_the_complete_run_of_the_history", 1)
				continue
			}
			r.Violation("listed-but-different-bytes|"+key, fmt.Sprintf("%s: %s (%s) is listed as available but reads back with different bytes", where, it.what, it.addr), desc)
		default:
			r.Count("available_objects_read_back_identical"+phase, 1)
		}
	}
	if listed > 0 {
		r.Count("recoveries_with_available_objects"+phase, 1)
	}
	return failed
}

// vf15Recover reopens the stopped store and applies the oracle.  For the complete (dry) run
// the stop is the clean one after the last operation; what is unreadable already then is
// reported once, under a key that names the history shape, and returned.
func vf15Recover(r *verifkit.Run, jb *vf15Job, dir string, journal []string, crashed bool) map[oid.Address]bool {
	desc := jb.hs.describe()
	if jb.dry {
		desc["crash_point"] = "none (stop after the last operation)"
	} else {
		desc["crash_point"] = fmt.Sprintf("%s#%d", jb.name, jb.k)
	}
	desc["crashed"] = crashed
	inProgress := "none"
	if len(journal) < len(jb.hs.ops) {
		inProgress = jb.hs.ops[len(journal)].Kind
	}
	desc["op_in_progress"] = inProgress
	desc["step_passed_in_op"] = jb.step
	desc["ops_completed_before_crash"] = len(journal)
	desc["journal"] = journal
	ep := new(vf15Epoch)
	for i := 0; i < len(journal) && i < len(jb.hs.ops); i++ {
		if jb.hs.ops[i].Kind == "epoch" {
			ep.v.Store(vf15NewEpoch)
		}
	}
	desc["epoch_at_reopen"] = ep.CurrentEpoch()
	var sh *Shard
	var err error
	if r.Guard(desc, func() { sh, err = vf15Open(dir, jb.hs.wc, jb.hs.thr, jb.hs.bc, ep) }) {
		return nil
	}
	key := fmt.Sprintf("wc=%v|during=%s|after-step=%s", jb.hs.wc, inProgress, jb.step)
	where := fmt.Sprintf("after a crash at %s#%d (during %s, after step %s)", jb.name, jb.k, inProgress, jb.step)
	if jb.dry {
		key = fmt.Sprintf("wc=%v|clean-stop", jb.hs.wc)
		where = "after the complete history and a clean stop"
	}
	if err != nil {
		r.Violation("reopen-failed|"+key, where+": shard does not reopen: "+err.Error(), desc)
		return nil
	}
	defer func() {
		if sh != nil {
			r.Guard(desc, func() { _ = sh.Close() })
		}
	}()
	if m := sh.GetMode(); m.NoMetabase() || m.ReadOnly() {
		r.Violation("reopen-degraded|"+key, fmt.Sprintf("%s: shard reopens in mode %s", where, m), desc)
		return nil
	}
	var items []vf15Item
	for i, o := range jb.hs.objs {
		items = append(items, vf15Item{o.Address(), jb.hs.bins[i], fmt.Sprintf("object %d", i), i, false})
		ts := new(object.Object)
		if ts.Unmarshal(jb.hs.tombs[i]) == nil {
			items = append(items, vf15Item{ts.Address(), jb.hs.tombs[i], fmt.Sprintf("tombstone of %d", i), i, true})
		}
	}
	keyOf := func(suffix string) func(vf15Item) (string, bool) {
		return func(it vf15Item) (string, bool) {
			if jb.dry {
				return key + "|" + jb.hs.cleanKey(it) + suffix, true
			}
			// what the complete run loses without any interruption is one finding of the
			// history, not one per crash point passed after the copy was put
			if jb.hs.cleanFailed[it.addr] && len(journal) > jb.hs.lastPut(it) {
				return "", false
			}
			return key + suffix, true
		}
	}
	ph := ""
	if jb.dry {
		ph = "_clean_stop"
	}
	failed := vf15CheckAll(r, sh, items, desc, keyOf(""), ph, where, nil)
	// The statement speaks about the restarted node, not only its first instant: a GC
	// pass and a flush of whatever the stop left in the cache must not change the answer.
	if crashed || jb.dry {
		var ferr error
		if r.Guard(desc, func() {
			sh.removeGarbage()
			if jb.hs.wc {
				ferr = sh.FlushWriteCache(false)
			}
		}) {
			return failed
		}
		if ferr != nil {
			r.Count("post_recovery_flush_errors", 1)
		}
		for a := range vf15CheckAll(r, sh, items, desc, keyOf("|after-restart-gc-and-flush"), ph+"_after_restart_gc_flush", where+", then one GC pass and an explicit flush on the restarted shard", failed) {
			failed[a] = true
		}
		// what is unreadable up to here is what the stop itself did; the caller keeps it
		stopFailed := make(map[oid.Address]bool, len(failed))
		for a := range failed {
			stopFailed[a] = true
		}
		vf15Continue(r, jb, &sh, dir, ep, items, desc, journal, key, keyOf, ph, where, failed)
		return stopFailed
	}
	return failed
}

// vf15Continue: the restarted node does not stand still.  It goes on with a few operations
// (vf15Continuation) on whatever the stop left behind, is then stopped cleanly and started
// once more; the statement is demanded on the running node after these operations and again
// after the second restart.  Addresses already judged unreadable for this recovery are not
// judged again.
func vf15Continue(r *verifkit.Run, jb *vf15Job, shp **Shard, dir string, ep *vf15Epoch, items []vf15Item, desc map[string]any,
	journal []string, key string, keyOf func(string) func(vf15Item) (string, bool), ph, where string, failed map[oid.Address]bool) {
	sh := *shp
	cont := vf15Continuation(r, jb, journal)
	var names, kinds, log []string
	for _, op := range cont {
		names = append(names, op.String())
		kinds = append(kinds, op.Kind)
	}
	desc["continuation_after_restart"] = names
	r.Count("continuations_after_restart_run", 1)
	r.Seen("continuation_shapes", strings.Join(kinds, ","))
	for _, op := range cont {
		var err error
		if r.Guard(desc, func() {
			switch op.Kind {
			case "put":
				err = sh.Put(jb.hs.objs[op.Obj], jb.hs.bins[op.Obj])
			case "tombstone":
				ts := new(object.Object)
				if err = ts.Unmarshal(jb.hs.tombs[op.Obj]); err == nil {
					err = sh.Put(ts, jb.hs.tombs[op.Obj])
				}
			case "flush":
				err = sh.FlushWriteCache(false)
			case "mode-cycle":
				err = vf15ModeCycle(sh)
			}
		}) {
			return
		}
		res := "ok"
		if err != nil {
			res = "err"
			log = append(log, op.String()+" err "+err.Error())
		} else {
			log = append(log, op.String()+" ok")
		}
		r.Count("continuation_ops_"+op.Kind+"_"+res, 1)
	}
	desc["continuation_journal"] = log
	suffix := "|continued(" + strings.Join(kinds, ",") + ")"
	wh := where + ", then one GC pass and a flush, then the restarted shard went on with " + strings.Join(names, " ")
	for a := range vf15CheckAll(r, sh, items, desc, keyOf(suffix), ph+"_after_continuation", wh, failed) {
		failed[a] = true
	}
	// second stop (a clean one) and restart
	var err error
	*shp = nil // closed here, not by the caller
	if r.Guard(desc, func() { err = sh.Close() }) {
		return
	}
	if err != nil {
		r.Count("continuation_close_errors", 1)
	}
	var sh2 *Shard
	if r.Guard(desc, func() { sh2, err = vf15Open(dir, jb.hs.wc, jb.hs.thr, jb.hs.bc, ep) }) {
		return
	}
	if err != nil {
		r.Violation("reopen-failed|"+key+suffix+"|second-restart", wh+", was stopped cleanly: shard does not reopen: "+err.Error(), desc)
		return
	}
	*shp = sh2
	for a := range vf15CheckAll(r, sh2, items, desc, keyOf(suffix+"|second-restart"), ph+"_after_continuation_and_second_restart", wh+", was stopped cleanly and started again", failed) {
		failed[a] = true
	}
}

// vf15Prefixes: which instrumentation points are crash points.  Component step
// boundaries always; the FSTree-internal syscall points (the subject of C12) only in the
// thorough tier, to see the shard-level consequence of a half-done blob or cache write.
func vf15IsCrashPoint(r *verifkit.Run, hs *vf15Hist, name string) bool {
	if strings.HasPrefix(name, "shard.") || strings.HasPrefix(name, "writecache.") {
		return true
	}
	return (r.Thorough() || hs.syscalls) && strings.HasPrefix(name, "fstree.")
}

func vf15NormStep(s string) string {
	switch s {
	case "", "shard.put.meta", "shard.delete.blobs": // final step of the previous procedure
		return "start"
	}
	return s
}

func TestVerif_C15(t *testing.T) {
	if spec, ok := verifkit.ChildSpec(); ok {
		vf15Child(spec)
		return
	}
	r := verifkit.Start(t, "C15", "fault_enumeration")
	defer r.Finish()
	r.SetRule("history = seeded script of <=10 shard operations over 3-5 objects (distinct sizes on both sides of the write-cache batch threshold, some expiring; write-cache on in 3 of 4 histories), either sequential (background flush only as an operation of its own) or overlapping (the background flusher is advanced to 2-3 of its step boundaries scheduled/taken/read/stored/done and held at each while 1-2 operations, mostly on one member of the batch in flight, execute) or short (<=6 operations, write-cache on) around a mode round trip read-only/read-write of the shard, with the syscall points inside the file writes as crash points in every tier; every recovery is followed by a seeded continuation on the restarted shard (the interrupted put repeated or a member put again, up to two more puts/flushes, a mode round trip in half of the cases), a clean stop and a second restart; case = (history, hook point, k-th hit) enumerated from a dry run, plus (history, stop after the last operation); a crash case is non-trivial when the child really died at the point; distinct = distinct (history, point, k) / distinct sequence of (operation, flusher phase) of an overlapping history")
	r.Assume("process-crash model: SIGKILL at the step boundary, everything handed to the kernel survives (no power loss)")
	r.Assume("reopen without metabase resync; GC passes, epoch and flushes are driven explicitly by the script; the background flusher (one worker) moves only inside 'bgflush'/'bg' operations and stands still at its step boundaries otherwise, so operation/flusher interleavings are those the script names, at step-boundary granularity")
	r.Assume("the continuation after a restart runs in the judging process with the cache's flusher moving freely; it contains no removals")
	r.Assume("'metadata reports as available' = Shard.Exists(addr,false) returns true without error at the epoch of the last completed epoch operation")
	base := os.Getenv("VERIF_SCRATCH")
	if base == "" {
		base = os.TempDir()
	}
	nHist := r.Pick(16, 90)
	par := r.Pick(12, 12)
	var hists []*vf15Hist
	for i := 0; i < nHist; i++ {
		hs := vf15GenHist(r, i)
		hs.enumerate = true
		hists = append(hists, hs)
	}
	// histories whose operations overlap a background flush round: all of them are judged
	// after the complete run, the first ones also at every crash point from the first bg on
	nOver, nOverEnum := r.Pick(48, 240), r.Pick(4, 30)
	for i := 0; i < nOver; i++ {
		hs := vf15GenOverlapHist(r, i)
		hs.enumerate = i < nOverEnum
		hists = append(hists, hs)
	}
	// short histories around a mode round trip of the shard, crash points down to the syscalls
	// of the file writes
	nMode := r.Pick(4, 24)
	for i := 0; i < nMode; i++ {
		hs := vf15GenModeHist(r, i)
		hs.enumerate = true
		hists = append(hists, hs)
	}
	run := func(jobs []*vf15Job, f func(*vf15Job)) {
		sem := make(chan struct{}, par)
		var wg sync.WaitGroup
		for _, jb := range jobs {
			wg.Add(1)
			sem <- struct{}{}
			go func() {
				defer wg.Done()
				defer func() { <-sem }()
				f(jb)
			}()
		}
		wg.Wait()
	}
	// 1. dry runs: which step boundaries does each history pass, and how often
	var dry []*vf15Job
	for _, hs := range hists {
		dry = append(dry, &vf15Job{hs: hs, dry: true})
	}
	run(dry, func(jb *vf15Job) {
		dir, res, journal := vf15RunChild(r, base, jb)
		defer os.RemoveAll(dir)
		if res.ExitCode != 0 || res.Signaled || len(journal) != len(jb.hs.ops) {
			r.Inconclusive(fmt.Sprintf("history %d: dry run did not complete (exit %d, %d/%d ops): %s", jb.hs.idx, res.ExitCode, len(journal), len(jb.hs.ops), strings.TrimSpace(res.Output)))
			jb.order = nil
			return
		}
		for i, l := range journal {
			f := strings.SplitN(l, " ", 3)
			outcome := "ok"
			if len(f) == 3 && strings.HasPrefix(f[2], "err") {
				outcome = "err"
			}
			r.Count("dry_ops_"+jb.hs.ops[i].Kind+"_"+outcome, 1)
		}
		if jb.hs.idx < 3 || (jb.hs.overlap && jb.hs.idx < 1003) || (jb.hs.syscalls && jb.hs.idx < 2003) {
			r.Sample(map[string]any{"history": jb.hs.describe(), "step_boundaries_passed": len(jb.order), "dry_run_journal": journal})
		}
		jb.hs.dryJournal = journal
		if jb.hs.syscalls {
			var ops []string
			for _, o := range jb.hs.ops {
				ops = append(ops, o.String())
			}
			r.Seen("mode_round_trip_histories", fmt.Sprintf("%d: %s", jb.hs.idx, strings.Join(ops, " ")))
		}
		if jb.hs.overlap {
			for i, op := range jb.hs.ops {
				switch {
				case op.Kind == "bg" && op.Gate != "idle" && strings.Contains(journal[i], " ok held="):
					r.Count("overlap_flusher_held_at_boundary", 1)
					r.Seen("overlap_boundaries_held_at", op.Gate)
				case op.Kind == "bg" && op.Gate != "idle":
					r.Count("overlap_boundary_not_reached", 1)
				case op.Kind != "bg" && i > jb.hs.firstBg:
					r.Seen("overlap_operation_while_flusher", op.Kind+"@"+jb.hs.phase(i))
				}
			}
			var shape []string
			for i := jb.hs.firstBg; i < len(jb.hs.ops); i++ {
				if op := jb.hs.ops[i]; op.Kind != "bg" {
					shape = append(shape, op.String()+"@"+jb.hs.phase(i))
				}
			}
			r.Distinct("overlap|" + strings.Join(shape, ","))
		}
		// the stop after the last operation is a stop point too
		r.Eval(1)
		r.Count("complete_runs_judged_after_clean_stop", 1)
		jb.name, jb.k = "end", 0
		jb.hs.cleanFailed = vf15Recover(r, jb, dir, journal, false)
		if len(jb.hs.cleanFailed) > 0 {
			r.Count("complete_runs_with_unreadable_listed_objects", 1)
		}
	})
	if nOver > 0 && r.Counter("overlap_flusher_held_at_boundary") == 0 {
		r.Inconclusive("no history got the background flusher held inside a flush round")
	}
	// 2. one crash child per (point, k)
	var jobs []*vf15Job
	for _, d := range dry {
		cnt := map[string]int{}
		step := ""
		n := 0
		opIdx := -1
		for _, name := range d.order {
			if name == vf15OpMark {
				step = ""
				opIdx++
				continue
			}
			cnt[name]++
			// overlap histories: the puts before the first bg are the sequential histories' business
			if vf15IsCrashPoint(r, d.hs, name) && d.hs.enumerate && !(d.hs.overlap && opIdx < d.hs.firstBg) {
				jobs = append(jobs, &vf15Job{hs: d.hs, name: name, k: cnt[name], step: vf15NormStep(step)})
				r.Seen("crash_points_enumerated", name)
				n++
			}
			if strings.HasPrefix(name, "shard.") {
				step = name
			}
		}
		r.Count("crash_cases_enumerated", n)
	}
	if len(jobs) == 0 {
		r.Inconclusive("no hook point was passed by any history (hooks not compiled into this tree?)")
		return
	}
	run(jobs, func(jb *vf15Job) {
		dir, res, journal := vf15RunChild(r, base, jb)
		defer os.RemoveAll(dir)
		r.Eval(1)
		switch {
		case res.Signaled && res.Signal == syscall.SIGKILL && !res.TimedOut:
			r.Count("crash_cases_reached", 1)
			r.Seen("crash_points_reached", jb.name)
			r.Distinct(fmt.Sprintf("h%d|%s|%d", jb.hs.idx, jb.name, jb.k))
			inProgress := "none"
			if len(journal) < len(jb.hs.ops) {
				inProgress = jb.hs.ops[len(journal)].Kind
			}
			r.Seen("crash_situations", fmt.Sprintf("wc=%v during=%s at=%s", jb.hs.wc, inProgress, jb.name))
			if strings.HasPrefix(jb.name, "fstree.") {
				for i := 0; i < len(journal) && i < len(jb.hs.ops); i++ {
					if jb.hs.ops[i].Kind == "mode-cycle" {
						r.Count("crashes_inside_a_file_write_after_a_mode_round_trip", 1)
						break
					}
				}
			}
			vf15Recover(r, jb, dir, journal, true)
		case res.ExitCode == 0 && !res.TimedOut && !res.Signaled:
			// the schedule of the background flusher differed from the dry run
			r.Count("crash_cases_point_not_reached", 1)
			vf15Recover(r, jb, dir, journal, false) // clean shutdown: the oracle holds a fortiori
		default:
			r.Inconclusive(fmt.Sprintf("history %d crash@%s#%d: child ended unexpectedly (exit %d, signal %v, timeout %v): %s", jb.hs.idx, jb.name, jb.k, res.ExitCode, res.Signal, res.TimedOut, strings.TrimSpace(res.Output)))
		}
	})
	if e, re := r.Counter("crash_cases_enumerated"), r.Counter("crash_cases_reached"); re*10 < e*9 {
		r.Inconclusive(fmt.Sprintf("only %d of %d enumerated crash points were reached", re, e))
	}
	r.SetExhaustive(r.Counter("crash_cases_reached") == r.Counter("crash_cases_enumerated"))
}
