//go:build verif

package shard

// C09 – "A removed object never becomes readable again without a new upload".
//
// Three runtime monitors over one real shard (FSTree blobstor, bbolt metabase, real
// write-cache on/off) share one oracle written from the statement:
//
//   - an object is REMOVED once (a) its removal was requested – a tombstone for it was
//     accepted, it was dropped (Shard.Delete) or marked as garbage –, (b) a removal
//     procedure then worked on it while the node still held a metadata record of it (the
//     drop itself; for tombstoned / marked objects a GC pass that ran, or was cut by a
//     crash, after the request) and (c) afterwards the node
//     was observed to hold no metadata record of it and to refuse every metadata-aware
//     read of it; in a crash continuation also: the drop / GC pass cut by the crash was
//     working on it and its metadata record is gone when the store is reopened (the
//     deletion got past its metadata step – the state the statement's quantifier calls
//     "between the metadata and blob steps of a deletion" – and nothing will resume it);
//   - from then on, until a Put of that object is accepted again, no step of the history
//     (GC pass, epoch advance, tombstone expiry, offline metabase resync from the blobstor,
//     write-cache flush, restart, crash recovery) may make Get / Exists / Head /
//     GetBytesWithMetadataLookup return it.
//
// TestVerif_C09        seeded sequential histories            (exploration)
// TestVerif_C09Race    constructed flush-versus-delete schedules (pause controller)
// TestVerif_C09Crash   crash-point enumeration inside deletion / GC / flush, followed by
//                      continuations with tombstone expiry, GC, flush, resync, restart.

import (
	"encoding/json"
	"fmt"
	"io/fs"
	"os"
	"path/filepath"
	"strings"
	"sync"
	"sync/atomic"
	"syscall"
	"testing"
	"time"

	"github.com/nspcc-dev/bbolt"
	"github.com/nspcc-dev/neofs-node/internal/verifhook"
	"github.com/nspcc-dev/neofs-node/internal/verifkit"
	"github.com/nspcc-dev/neofs-node/pkg/local_object_storage/blobstor/common"
	"github.com/nspcc-dev/neofs-node/pkg/local_object_storage/blobstor/fstree"
	meta "github.com/nspcc-dev/neofs-node/pkg/local_object_storage/metabase"
	"github.com/nspcc-dev/neofs-node/pkg/local_object_storage/writecache"
	cid "github.com/nspcc-dev/neofs-sdk-go/container/id"
	"github.com/nspcc-dev/neofs-sdk-go/object"
	oid "github.com/nspcc-dev/neofs-sdk-go/object/id"
	"go.uber.org/zap"
)

const vf09OpMark = "vf09.op"

type vf09Epoch struct{ v atomic.Uint64 }

func (e *vf09Epoch) CurrentEpoch() uint64 { return e.v.Load() }

type vf09FixedEpoch uint64

func (e vf09FixedEpoch) CurrentEpoch() uint64 { return uint64(e) }

type vf09NoPayments struct{}

func (vf09NoPayments) PaymentsDisabled() bool            { return true }
func (vf09NoPayments) UnpaidSince(cid.ID) (int64, error) { return -1, nil }

// vf09Gate keeps the write-cache's own flush scheduler parked at its hand-off point unless
// the monitor lets it run: the sequential and crash parts must not contain accidental
// flush-versus-delete interleavings (those are constructed, and judged, in the race part).
type vf09Gate struct {
	mu   sync.Mutex
	open bool
	ch   chan struct{}
}

func vf09NewGate(h *verifkit.Hooks, also func()) *vf09Gate {
	g := &vf09Gate{ch: make(chan struct{})}
	h.OnPoint(func(name string, _ int) {
		if also != nil {
			also()
		}
		if name == "writecache.sched.handoff" {
			g.wait()
		}
	})
	return g
}

func (g *vf09Gate) wait() {
	for {
		g.mu.Lock()
		if g.open {
			g.mu.Unlock()
			return
		}
		ch := g.ch
		g.mu.Unlock()
		<-ch
	}
}

func (g *vf09Gate) set(open bool) {
	g.mu.Lock()
	g.open = open
	close(g.ch)
	g.ch = make(chan struct{})
	g.mu.Unlock()
}

// vf09Universe is the serialisable description of the objects of one history.
type vf09Universe struct {
	Objects [][]byte `json:"objects"`
	Tombs   [][]byte `json:"tombstones"` // tombstone of object i
	TombExp []uint64 `json:"tomb_exp"`
}

type vf09Op struct {
	Kind string `json:"kind"` // put tomb drop mark gc epoch flush bgflush restart resync resync0
	Obj  int    `json:"obj,omitempty"`
	N    uint64 `json:"n,omitempty"` // epoch value
}

func (o vf09Op) String() string {
	switch o.Kind {
	case "put", "tomb", "drop", "mark":
		return fmt.Sprintf("%s(%d)", o.Kind, o.Obj)
	case "epoch":
		return fmt.Sprintf("epoch(%d)", o.N)
	}
	return o.Kind
}

// vf09Model is the oracle's whole memory.
type vf09Model struct {
	Req     []string `json:"req"`     // "", "tombstoned", "dropped", "marked": why removal was requested (since the last accepted put)
	Rec     []bool   `json:"rec"`     // the node held a metadata record of it at the last observation
	Proc    []bool   `json:"proc"`    // a removal procedure worked on it after the request (drop itself / a GC pass) while it had a record
	Removed []bool   `json:"removed"` // observed removed (see file comment)
	Since   []string `json:"since"`   // step after which it was observed removed
	Epoch   uint64   `json:"epoch"`
}

type vf09World struct {
	scenario string
	dir      string
	wc       bool
	thr      uint64
	bcount   int
	sync     bool // real fsyncs (crash parts) or not
	ep       *vf09Epoch
	sh       *Shard
	objs     []*object.Object
	tombs    []*object.Object
	uni      vf09Universe
	m        vf09Model
	trace    []string
	report   func(key, what string, replay any) // nil: no verdicts (child process)
	count    func(string, int)
	seen     func(string, string)
	guard    func(any, func()) bool
	gate     *vf09Gate // nil: the background flusher runs freely
	// crash continuations only: what the crash left of every object, probed when the store
	// is reopened (before any further step): "<where its bytes are>-without-metadata" or
	// "record+<where>".  Part of the class key: it names which copy outlived the metadata
	// step of the cut deletion (i.e. which step order the deletion has).
	left []string
}

func vf09GenUniverse(r *verifkit.Run, stream string, idx, n int) vf09Universe {
	rng := r.Rand(stream, idx)
	cnr, owner := verifkit.RandCID(rng), verifkit.RandUser(rng)
	var u vf09Universe
	for i := 0; i < n; i++ {
		pl := 40 + 50*i + rng.IntN(40)
		if rng.IntN(3) == 0 {
			pl = 2200 + 300*i + rng.IntN(200) // above the flush batch threshold
		}
		o := verifkit.NewObject(rng, cnr, owner, pl)
		ts := verifkit.NewObject(rng, cnr, owner, 0)
		ts.SetType(object.TypeTombstone)
		ts.AssociateDeleted(o.GetID())
		exp := uint64(1 + rng.IntN(4))
		verifkit.SetExpiration(ts, exp)
		u.Objects = append(u.Objects, o.Marshal())
		u.Tombs = append(u.Tombs, ts.Marshal())
		u.TombExp = append(u.TombExp, exp)
	}
	return u
}

func vf09NewWorld(scenario, dir string, wc bool, thr uint64, bcount int, syncIO bool, u vf09Universe) (*vf09World, error) {
	w := &vf09World{scenario: scenario, dir: dir, wc: wc, thr: thr, bcount: bcount, sync: syncIO, ep: new(vf09Epoch), uni: u}
	for i := range u.Objects {
		o, ts := new(object.Object), new(object.Object)
		if err := o.Unmarshal(u.Objects[i]); err != nil {
			return nil, err
		}
		if err := ts.Unmarshal(u.Tombs[i]); err != nil {
			return nil, err
		}
		w.objs, w.tombs = append(w.objs, o), append(w.tombs, ts)
	}
	w.m = vf09Model{Req: make([]string, len(u.Objects)), Rec: make([]bool, len(u.Objects)), Proc: make([]bool, len(u.Objects)), Removed: make([]bool, len(u.Objects)), Since: make([]string, len(u.Objects))}
	w.count = func(string, int) {}
	w.seen = func(string, string) {}
	w.guard = func(_ any, f func()) bool { f(); return false }
	return w, nil
}

func (w *vf09World) attach(r *verifkit.Run) {
	w.report = r.Violation
	w.count = r.Count
	w.seen = r.Seen
	w.guard = r.Guard
}

func (w *vf09World) blobTree(ro bool) *fstree.FSTree {
	return fstree.New(fstree.WithPath(filepath.Join(w.dir, "blob")), fstree.WithDepth(1), fstree.WithNoSync(!w.sync))
}

func (w *vf09World) metaOpts(ep meta.EpochState) []meta.Option {
	opts := []meta.Option{meta.WithPath(filepath.Join(w.dir, "meta")), meta.WithEpochState(ep),
		meta.WithLogger(zap.NewNop()), meta.WithMaxBatchDelay(time.Microsecond)}
	if !w.sync {
		opts = append(opts, meta.WithBoltDBOptions(&bbolt.Options{NoSync: true, Timeout: 5 * time.Second}))
	}
	return opts
}

func (w *vf09World) open() error {
	sh := New(
		WithLogger(zap.NewNop()),
		WithBlobstor(w.blobTree(false)),
		WithMetaBaseOptions(w.metaOpts(w.ep)...),
		WithWriteCache(w.wc),
		WithWriteCacheOptions(writecache.WithPath(filepath.Join(w.dir, "wc")), writecache.WithLogger(zap.NewNop()), writecache.WithNoSync(!w.sync),
			writecache.WithFlushWorkersCount(1), writecache.WithMaxFlushBatchThreshold(w.thr), writecache.WithMaxFlushBatchCount(w.bcount)),
		WithGCRemoverSleepInterval(240*time.Hour), // GC passes are driven by the monitor
		WithContainerPayments(vf09NoPayments{}),
	)
	if err := sh.Open(); err != nil {
		return err
	}
	if err := sh.Init(); err != nil {
		_ = sh.Close()
		return err
	}
	sh.gc.currentEpoch.Store(w.ep.CurrentEpoch())
	w.sh = sh
	if w.gate != nil {
		w.gate.set(false)
	}
	return nil
}

func (w *vf09World) close() {
	if w.sh != nil {
		if w.gate != nil {
			w.gate.set(true) // a parked scheduler must be able to leave
		}
		_ = w.sh.Close()
		w.sh = nil
	}
}

// resync does what `neofs-lancet meta resync` does with the node stopped: reset the
// metabase and repopulate it from the blobstor tree.  atZero: the tool's own epoch
// source (always 0); otherwise the network epoch.
func (w *vf09World) resync(atZero bool) error {
	w.close()
	var ep meta.EpochState = w.ep
	if atZero {
		ep = vf09FixedEpoch(0)
	}
	db := meta.New(w.metaOpts(ep)...)
	if err := db.Open(false); err != nil {
		return fmt.Errorf("resync: open metabase: %w", err)
	}
	defer func() {
		if db != nil {
			_ = db.Close()
		}
	}()
	if err := db.Init(common.ID{}); err != nil {
		return fmt.Errorf("resync: init metabase: %w", err)
	}
	fst := w.blobTree(true)
	if err := fst.Open(true); err != nil {
		return fmt.Errorf("resync: open blobstor: %w", err)
	}
	if err := fst.Init(common.ID{}); err != nil {
		return fmt.Errorf("resync: init blobstor: %w", err)
	}
	err := db.ResyncFromBlobstor(fst, nil)
	_ = fst.Close()
	if err != nil {
		return fmt.Errorf("resync: %w", err)
	}
	err = db.Close()
	db = nil
	if err != nil {
		return err
	}
	return w.open()
}

func (w *vf09World) cacheFiles() int {
	n := 0
	_ = filepath.WalkDir(filepath.Join(w.dir, "wc"), func(p string, d fs.DirEntry, err error) error {
		if err == nil && !d.IsDir() && !strings.HasPrefix(d.Name(), ".") {
			n++
		}
		return nil
	})
	return n
}

// apply executes one operation on the real shard and advances the request part of the
// model.  Returned error is the operation's own outcome (not a verdict).
func (w *vf09World) apply(op vf09Op) error {
	var err error
	switch op.Kind {
	case "put":
		err = w.sh.Put(w.objs[op.Obj], w.uni.Objects[op.Obj])
		if err == nil { // stored anew
			w.forget(op.Obj)
		}
	case "tomb":
		err = w.sh.Put(w.tombs[op.Obj], w.uni.Tombs[op.Obj])
		if err == nil {
			w.request(op.Obj, "tombstoned")
		}
	case "drop":
		a := w.objs[op.Obj].Address()
		func() {
			// Shard.Delete is known to panic when the container has no metadata bucket and the
			// write-cache is on; the history goes on (the shard's locks are released by defers)
			defer func() {
				if p := recover(); p != nil {
					err = fmt.Errorf("panic: %v", p)
					w.count("drop_panics", 1)
					if w.report != nil {
						d := w.describe()
						d["panic"] = fmt.Sprint(p)
						w.report(fmt.Sprintf("panic|Shard.Delete|container-without-metadata-bucket|wc=%v", w.wc),
							fmt.Sprintf("Shard.Delete of object %d panics: %v", op.Obj, p), d)
					}
				}
			}()
			err = w.sh.Delete(a.Container(), []oid.ID{a.Object()})
		}()
		if err == nil {
			w.request(op.Obj, "dropped")
		}
	case "mark":
		a := w.objs[op.Obj].Address()
		err = w.sh.MarkGarbage(a.Container(), []oid.ID{a.Object()}, meta.GarbageMarkDefault)
		if err == nil {
			w.request(op.Obj, "marked")
		}
	case "gc":
		w.gcWorks()
		w.sh.removeGarbage()
	case "epoch":
		w.ep.v.Store(op.N)
		w.m.Epoch = op.N
		w.sh.setEpochEventHandler(EventNewEpoch(op.N))
	case "flush":
		if w.wc {
			err = w.sh.FlushWriteCache(false)
		}
	case "restart":
		w.close()
		err = w.open()
	case "resync":
		w.beforeResync(false)
		err = w.resync(false)
	case "resync0":
		w.beforeResync(true)
		err = w.resync(true)
	default:
		err = fmt.Errorf("unknown op %q", op.Kind)
	}
	res := "ok"
	if err != nil {
		res = "err: " + err.Error()
	}
	w.trace = append(w.trace, fmt.Sprintf("%s -> %s", op, res))
	w.count("ops_"+op.Kind+"_"+strings.SplitN(res, ":", 2)[0], 1)
	return err
}

func (w *vf09World) forget(i int) {
	w.m.Req[i], w.m.Proc[i], w.m.Removed[i], w.m.Since[i] = "", false, false, ""
}

// request notes that the removal of object i was requested (the first reason is kept).
func (w *vf09World) request(i int, how string) {
	if w.m.Req[i] == "" {
		w.m.Req[i] = how
	}
	if how == "dropped" && w.m.Rec[i] { // the drop is itself the removal procedure
		w.m.Proc[i] = true
	}
}

// gcWorks notes that a GC pass works on everything whose removal was requested so far.
func (w *vf09World) gcWorks() {
	for i := range w.m.Req {
		if w.m.Req[i] != "" && w.m.Rec[i] {
			w.m.Proc[i] = true
		}
	}
}

// readableVia returns the name of the first metadata-aware read that returns the object.
func (w *vf09World) readableVia(i int) string {
	a := w.objs[i].Address()
	if ok, err := w.sh.Exists(a, false); err == nil && ok {
		return "Exists"
	}
	if o, err := w.sh.Get(a, false); err == nil && o != nil {
		return "Get"
	}
	if o, err := w.sh.Head(a, false); err == nil && o != nil {
		return "Head"
	}
	if b, err := w.sh.GetBytesWithMetadataLookup(a); err == nil && b != nil {
		return "GetBytesWithMetadataLookup"
	}
	return ""
}

// dataIn tells where the bytes of object i are right now (component probes, no metabase).
func (w *vf09World) dataIn(i int) (inBlob, inWC bool, loc string) {
	if _, err := w.sh.blobStor.GetBytes(w.objs[i].Address()); err == nil {
		inBlob = true
	}
	if w.wc && w.sh.hasWriteCache() {
		if _, err := w.sh.writeCache.GetBytes(w.objs[i].Address()); err == nil {
			inWC = true
		}
	}
	loc = "nowhere"
	switch {
	case inBlob && inWC:
		loc = "blobstor+cache"
	case inBlob:
		loc = "blobstor"
	case inWC:
		loc = "cache"
	}
	return
}

// tombIn tells where the bytes of the tombstone of object i are stored right now (component
// probes, no metabase): a key component of every resurrection, because "the object came back
// although a tombstone of it is still stored in the blobstor the metabase was rebuilt from"
// is a different failure than "it came back once no tombstone of it was left".
func (w *vf09World) tombIn(i int) string {
	a := w.tombs[i].Address()
	inBlob, inWC := false, false
	if _, err := w.sh.blobStor.GetBytes(a); err == nil {
		inBlob = true
	}
	if w.wc && w.sh.hasWriteCache() {
		if _, err := w.sh.writeCache.GetBytes(a); err == nil {
			inWC = true
		}
	}
	switch {
	case inBlob && inWC:
		return "blobstor+cache"
	case inBlob:
		return "blobstor"
	case inWC:
		return "cache"
	}
	return "nowhere"
}

// beforeResync records (evidence only) in which tombstone state the coming resync meets the
// leftover blob of an object that has been removed: no tombstone stored any more, tombstone
// only in the write-cache (which the offline resync does not read), tombstone in the blobstor
// and still alive / already expired at the network epoch.
func (w *vf09World) beforeResync(atZero bool) {
	if w.sh == nil {
		return
	}
	for i := range w.objs {
		if !w.m.Removed[i] {
			continue
		}
		inBlob, _, _ := w.dataIn(i)
		if !inBlob {
			continue
		}
		st := "none-stored"
		switch w.tombIn(i) {
		case "cache":
			st = "only-cached"
		case "blobstor", "blobstor+cache":
			st = "in-blobstor-alive"
			if w.uni.TombExp[i] < w.m.Epoch {
				st = "in-blobstor-expired-not-collected"
			}
		}
		if atZero {
			st += "(resync-at-epoch-0)"
		}
		w.count("resyncs_meeting_leftover_blob_of_removed_object", 1)
		w.seen("resync_met_leftover_blob_of_removed_object_with_tombstone", st)
	}
}

func (w *vf09World) describe() map[string]any {
	var sizes []int
	for _, b := range w.uni.Objects {
		sizes = append(sizes, len(b))
	}
	return map[string]any{"scenario": w.scenario, "write_cache": w.wc, "batch_threshold": w.thr, "object_sizes": sizes, "tombstone_expirations": w.uni.TombExp, "steps": append([]string(nil), w.trace...)}
}

// observe judges every object after a step and advances the "removed" part of the model.
// after: operation kind that just ran; extra: additional key component (crash situation).
func (w *vf09World) observe(after, extra string) {
	if w.sh == nil {
		return
	}
	desc := w.describe()
	for i := range w.objs {
		var via string
		var gone bool
		if w.guard(desc, func() {
			via = w.readableVia(i)
			st, _ := w.sh.metaBase.ObjectStatus(w.objs[i].Address())
			gone = len(st.HeaderIndex) == 0
		}) {
			continue
		}
		w.count("object_observations", 1)
		switch {
		case w.m.Removed[i] && via != "":
			w.count("resurrections", 1)
			if w.report != nil {
				inBlob, inWC, loc := w.dataIn(i)
				scen := w.scenario
				if w.left != nil {
					scen += "|crash-left=" + w.left[i]
				}
				tin := w.tombIn(i)
				key := fmt.Sprintf("resurrected|%s|removed-by=%s|back-after=%s|data-in=%s|tomb-in=%s", scen, w.m.Req[i], strings.TrimSuffix(after, "0"), loc, tin)
				d := w.describe()
				d["tombstone_of_it_stored_in"] = tin
				d["tombstone_expiration"] = w.uni.TombExp[i]
				d["network_epoch"] = w.m.Epoch
				d["detail"] = extra
				d["object"] = i
				d["address"] = w.objs[i].Address().String()
				d["observed_removed_after"] = w.m.Since[i]
				if w.left != nil {
					d["left_by_crash"] = w.left[i]
				}
				w.report(key, fmt.Sprintf("object %d (%s) was %s, removed as of step %q (removal procedure worked on it, no metadata record left), no Put of it was accepted since, yet after %q %s returns it (data in blobstor=%v, in write-cache=%v; its tombstone, expiration %d, is stored in: %s; network epoch %d)",
					i, w.objs[i].Address(), w.m.Req[i], w.m.Since[i], after, via, inBlob, inWC, w.uni.TombExp[i], tin, w.m.Epoch), d)
			}
			w.forget(i) // report one resurrection once
		case !w.m.Removed[i] && w.m.Req[i] != "" && w.m.Proc[i] && gone && via == "":
			w.m.Removed[i] = true
			w.m.Since[i] = fmt.Sprintf("#%d %s", len(w.trace), after)
			w.count("objects_observed_removed", 1)
			w.seen("removed_by", w.m.Req[i])
		}
		w.m.Rec[i] = !gone
		if w.m.Removed[i] {
			w.count("observations_of_removed_objects_still_unreadable", 1)
			w.seen("steps_survived_by_removed_objects", after)
		}
	}
}

// ---------------------------------------------------------------------------------------
// Part 1: sequential histories

func vf09GenOps(r *verifkit.Run, idx, n int, wc bool, tombExp []uint64) []vf09Op {
	rng := r.Rand("seq-ops", idx)
	steps := 30 + rng.IntN(40)
	epoch := uint64(0)
	var ops []vf09Op
	stored := make([]bool, n)
	for len(ops) < steps {
		x := rng.IntN(100)
		i := rng.IntN(n)
		switch {
		case x < 22:
			ops = append(ops, vf09Op{Kind: "put", Obj: i})
			stored[i] = true
		case x < 34:
			if epoch <= tombExp[i] {
				ops = append(ops, vf09Op{Kind: "tomb", Obj: i})
			}
		case x < 42:
			ops = append(ops, vf09Op{Kind: "drop", Obj: i})
		case x < 48:
			ops = append(ops, vf09Op{Kind: "mark", Obj: i})
		case x < 64:
			ops = append(ops, vf09Op{Kind: "gc"})
		case x < 72:
			epoch += uint64(1 + rng.IntN(2))
			ops = append(ops, vf09Op{Kind: "epoch", N: epoch})
		case x < 80:
			if wc {
				ops = append(ops, vf09Op{Kind: "flush"})
			}
		case x < 87:
			ops = append(ops, vf09Op{Kind: "restart"})
		case x < 94:
			ops = append(ops, vf09Op{Kind: "resync"})
		default:
			ops = append(ops, vf09Op{Kind: "resync0"})
		}
	}
	// every history ends with: everything expires, is collected, and the metabase is rebuilt twice
	ops = append(ops, vf09Op{Kind: "gc"}, vf09Op{Kind: "epoch", N: epoch + 10}, vf09Op{Kind: "gc"}, vf09Op{Kind: "gc"},
		vf09Op{Kind: "flush"}, vf09Op{Kind: "resync"}, vf09Op{Kind: "gc"}, vf09Op{Kind: "restart"}, vf09Op{Kind: "resync0"})
	return ops
}

func TestVerif_C09(t *testing.T) {
	r := verifkit.Start(t, "C09", "exploration")
	defer r.Finish()
	r.SetRule("history = seeded sequence of 40-80 operations (put, tombstone with expiration 1-4, drop, garbage mark, GC pass, epoch advance, explicit flush, restart, offline resync at network epoch or at epoch 0) over 4-6 objects on one shard, write-cache on in 2 of 3 histories; after every step every object is read through Exists/Get/Head/GetBytesWithMetadataLookup; non-trivial = at least one object was observed removed and then survived further steps; distinct = distinct step sequences with that property")
	r.Assume("resync = the offline procedure of `neofs-lancet meta resync` (metabase reset + ResyncFromBlobstor over the blobstor tree) with the shard closed")
	r.Assume("'removed' = removal requested (tombstone accepted / Shard.Delete / garbage mark) and then no metadata record and every metadata-aware read refused; reads that bypass the metabase (skipMeta, GetBytes) are not judged")
	base := os.Getenv("VERIF_SCRATCH")
	if base == "" {
		base = t.TempDir()
	}
	nHist := r.Pick(60, 600)
	h := verifkit.InstallHooks()
	defer h.Uninstall()
	gate := vf09NewGate(h, nil)
	defer gate.set(true)
	for idx := 0; idx < nHist; idx++ {
		rng := r.Rand("seq", idx)
		n := 4 + rng.IntN(3)
		u := vf09GenUniverse(r, "seq-uni", idx, n)
		wc := idx%3 != 2
		dir, err := os.MkdirTemp(base, "c09-seq-")
		if err != nil {
			r.Inconclusive(err.Error())
			return
		}
		w, err := vf09NewWorld("sequential", dir, wc, 2048, 2+rng.IntN(3), false, u)
		if err != nil {
			r.Inconclusive(err.Error())
			return
		}
		w.attach(r)
		w.gate = gate
		if err := w.open(); err != nil {
			r.Inconclusive("open: " + err.Error())
			return
		}
		ops := vf09GenOps(r, idx, n, wc, u.TombExp)
		survived := int64(0)
		before := r.Counter("observations_of_removed_objects_still_unreadable")
		broken := false
		for _, op := range ops {
			var err error
			if r.Guard(w.describe(), func() { err = w.apply(op) }) {
				broken = true
				break
			}
			if err != nil && (op.Kind == "restart" || strings.HasPrefix(op.Kind, "resync")) {
				r.Violation(fmt.Sprintf("step-failed|sequential|%s|wc=%v", op.Kind, wc), fmt.Sprintf("%s failed: %v", op.Kind, err), w.describe())
				broken = true
				break
			}
			w.observe(op.Kind, "")
		}
		w.close()
		_ = os.RemoveAll(dir)
		r.Eval(1)
		survived = r.Counter("observations_of_removed_objects_still_unreadable") - before
		if !broken && survived > 0 {
			var sig []string
			for _, o := range ops {
				sig = append(sig, o.String())
			}
			r.Distinct(fmt.Sprintf("wc=%v|%s", wc, strings.Join(sig, ",")))
		}
		if idx < 3 {
			r.Sample(w.describe())
		}
	}
}

// ---------------------------------------------------------------------------------------
// Part 2: constructed flush-versus-delete schedules

type vf09RaceCase struct {
	Flusher string   `json:"flusher"` // explicit-single | background-single | background-batch
	Removal string   `json:"removal"` // drop | tombstone+gc | mark+gc
	ParkAt  string   `json:"park_at"` // hook point where the flusher is parked
	Cont    []vf09Op `json:"continuation"`
}

func vf09Continuations(final uint64) [][]vf09Op {
	e := vf09Op{Kind: "epoch", N: final}
	gc, fl, rs, rs0, rst := vf09Op{Kind: "gc"}, vf09Op{Kind: "flush"}, vf09Op{Kind: "resync"}, vf09Op{Kind: "resync0"}, vf09Op{Kind: "restart"}
	return [][]vf09Op{
		{fl, gc, e, gc, gc, rs, rst, gc},   // tombstones expire and are collected, then the metabase is rebuilt
		{rs, gc, e, gc, rs0, fl, gc, rs},   // rebuilt first (tombstones still alive), later again
		{rst, fl, e, gc, gc, rst, rs0, gc}, // restart first
		{fl, e, rs, gc, gc, rst, rs0, gc},  // tombstones expire and the metabase is rebuilt BEFORE any GC pass collected them
	}
}

func TestVerif_C09Race(t *testing.T) {
	r := verifkit.Start(t, "C09", "exploration")
	defer r.Finish()
	r.SetRule("case = (which flusher: explicit FlushWriteCache / background single-object flush / background batch flush) x (point where it is parked: after reading the cached bytes and before writing them to the blobstor, or after writing and before the cache removal) x (removal completing meanwhile: drop, tombstone+GC, garbage mark+GC) x (continuation: flush/GC/epoch past tombstone expiry/resync/restart in 4 orders, one of them rebuilding the metabase after the tombstones expired but before a GC pass collected them); the schedule is constructed with the pause controller on the flush step points; non-trivial = the flusher really parked, the removal completed while it was parked and the object was observed removed; distinct = (flusher, park point, removal, continuation)")
	r.Assume("the parked flusher is released only after the removal (and its GC pass) returned; a flusher that does not park within the watchdog is inconclusive, never a verdict")
	base := os.Getenv("VERIF_SCRATCH")
	if base == "" {
		base = t.TempDir()
	}
	type flusher struct{ name, readPoint, storedPoint string }
	flushers := []flusher{
		{"explicit-single", "writecache.flushSingle.read", "writecache.flushSingle.stored"},
		{"background-single", "writecache.flushSingle.read", "writecache.flushSingle.stored"},
		{"background-batch", "writecache.flushBatch.read", "writecache.flushBatch.stored"},
	}
	removals := []string{"drop", "tombstone+gc", "mark+gc"}
	conts := vf09Continuations(20)
	idx := 0
	for fi, fl := range flushers {
		for pi, park := range []string{fl.readPoint, fl.storedPoint} {
			for ri, rm := range removals {
				for ci, cont := range conts {
					idx++
					// quick: a third of the grid, a diagonal rotated by the seed: every (flusher, park
					// point, removal) cell runs at least one continuation, every continuation runs with
					// every removal and every park point
					if !r.Thorough() && (fi+pi+ri+ci+int(r.Seed()))%3 != 0 {
						continue
					}
					vf09RunRace(r, base, idx, vf09RaceCase{Flusher: fl.name, Removal: rm, ParkAt: park, Cont: cont}, fmt.Sprintf("%s|park=%d|%s|cont=%d", fl.name, pi, rm, ci))
				}
			}
		}
	}
}

func vf09RunRace(r *verifkit.Run, base string, idx int, c vf09RaceCase, sig string) {
	r.Eval(1)
	u := vf09GenUniverse(r, "race-uni", idx, 2)
	// object 0 is the victim; make its size fit the flusher kind; object 1 only accompanies it in a batch
	rng := r.Rand("race", idx)
	cnr, owner := verifkit.RandCID(rng), verifkit.RandUser(rng)
	sizes := []int{300, 500}
	if c.Flusher != "background-batch" {
		sizes[0] = 3000
	}
	for i := range sizes {
		o := verifkit.NewObject(rng, cnr, owner, sizes[i])
		ts := verifkit.NewObject(rng, cnr, owner, 0)
		ts.SetType(object.TypeTombstone)
		ts.AssociateDeleted(o.GetID())
		verifkit.SetExpiration(ts, 3)
		u.Objects[i], u.Tombs[i], u.TombExp[i] = o.Marshal(), ts.Marshal(), 3
	}
	dir, err := os.MkdirTemp(base, "c09-race-")
	if err != nil {
		r.Inconclusive(err.Error())
		return
	}
	defer os.RemoveAll(dir)
	scenario := "flush-vs-delete|" + c.Flusher
	w, err := vf09NewWorld(scenario, dir, true, 2048, 4, false, u)
	if err != nil {
		r.Inconclusive(err.Error())
		return
	}
	w.attach(r)
	h := verifkit.InstallHooks()
	defer h.Uninstall()
	reached, release := h.PauseAt(c.ParkAt, 1)
	if err := w.open(); err != nil {
		r.Inconclusive("open: " + err.Error())
		return
	}
	defer w.close()
	desc := func() map[string]any { d := w.describe(); d["case"] = c; return d }
	bad := false
	step := func(op vf09Op) {
		if bad {
			return
		}
		if r.Guard(desc(), func() { _ = w.apply(op) }) {
			bad = true
			return
		}
		w.observe(op.Kind, "")
	}
	step(vf09Op{Kind: "put", Obj: 0})
	if c.Flusher == "background-batch" {
		step(vf09Op{Kind: "put", Obj: 1})
	}
	flushDone := make(chan struct{})
	if c.Flusher == "explicit-single" {
		go func() {
			defer close(flushDone)
			_ = w.sh.FlushWriteCache(false)
		}()
	} else {
		close(flushDone)
	}
	if !verifkit.WaitOrTimeout(reached, 60*time.Second) {
		release()
		r.Inconclusive(fmt.Sprintf("%s: the flusher never reached %s", sig, c.ParkAt))
		return
	}
	r.Count("schedules_flusher_parked", 1)
	w.trace = append(w.trace, "[flusher parked at "+c.ParkAt+"]")
	switch c.Removal {
	case "drop":
		step(vf09Op{Kind: "drop", Obj: 0})
	case "tombstone+gc":
		step(vf09Op{Kind: "tomb", Obj: 0})
		step(vf09Op{Kind: "gc"})
	case "mark+gc":
		step(vf09Op{Kind: "mark", Obj: 0})
		step(vf09Op{Kind: "gc"})
	}
	removedWhileParked := w.m.Removed[0]
	doneBefore := h.Counts()["writecache.worker.done"]
	release()
	w.trace = append(w.trace, "[flusher released]")
	if c.Flusher == "explicit-single" {
		if !verifkit.WaitOrTimeout(flushDone, 60*time.Second) {
			r.Inconclusive(sig + ": explicit flush did not return")
			return
		}
	} else {
		ok := false
		for i := 0; i < 60000; i++ { // logical condition: the parked worker finished its batch
			if h.Counts()["writecache.worker.done"] > doneBefore {
				ok = true
				break
			}
			time.Sleep(time.Millisecond)
		}
		if !ok {
			r.Inconclusive(sig + ": background flusher did not finish its batch")
			return
		}
	}
	w.observe("flush-completes", "")
	for _, op := range c.Cont {
		step(op)
	}
	if removedWhileParked && !bad {
		r.Count("schedules_removal_completed_while_flusher_parked", 1)
		r.Distinct(sig)
		r.Seen("interleavings", sig)
	}
	if idx%7 == 0 {
		r.Sample(desc())
	}
}

// ---------------------------------------------------------------------------------------
// Part 3: crash points inside deletion, GC and flush, then continuations

type vf09CrashSpec struct {
	Dir       string       `json:"dir"`
	WC        bool         `json:"wc"`
	Thr       uint64       `json:"thr"`
	BCount    int          `json:"bcount"`
	Uni       vf09Universe `json:"universe"`
	Ops       []vf09Op     `json:"ops"`
	CrashName string       `json:"crash_name,omitempty"`
	CrashK    int          `json:"crash_k,omitempty"`
	Out       string       `json:"out"`
	Journal   string       `json:"journal"`
}

func vf09Child(specPath string) {
	b, err := os.ReadFile(specPath)
	if err != nil {
		fmt.Println("child: read spec:", err)
		os.Exit(4)
	}
	var sp vf09CrashSpec
	if err := json.Unmarshal(b, &sp); err != nil {
		fmt.Println("child: spec:", err)
		os.Exit(4)
	}
	w, err := vf09NewWorld("child", sp.Dir, sp.WC, sp.Thr, sp.BCount, true, sp.Uni)
	if err != nil {
		fmt.Println("child: world:", err)
		os.Exit(4)
	}
	h := verifkit.InstallHooks()
	var hits atomic.Int64
	w.gate = vf09NewGate(h, func() { hits.Add(1) })
	if err := w.open(); err != nil {
		fmt.Println("child: open:", err)
		os.Exit(4)
	}
	j, err := verifkit.OpenJournal(sp.Journal)
	if err != nil {
		fmt.Println("child: journal:", err)
		os.Exit(4)
	}
	if sp.CrashName != "" {
		h.CrashAt(sp.CrashName, sp.CrashK)
	}
	for i, op := range sp.Ops {
		verifhook.Point(vf09OpMark)
		res := "ok"
		if op.Kind == "bgflush" {
			// let the cache's own scheduler work (bounded; only decides which crash points exist)
			w.gate.set(true)
			start, seen, last, lastAt := time.Now(), hits.Load(), hits.Load(), time.Now()
			for w.cacheFiles() > 0 {
				now := hits.Load()
				if now != last {
					last, lastAt = now, time.Now()
				}
				if (now != seen && time.Since(lastAt) > 1200*time.Millisecond) || time.Since(start) > 6*time.Second {
					res = "partial"
					break
				}
				time.Sleep(5 * time.Millisecond)
			}
			w.gate.set(false)
			w.trace = append(w.trace, "bgflush -> "+res)
		} else if err := w.apply(op); err != nil {
			res = "err"
		}
		w.observe(op.Kind, "")
		mb, _ := json.Marshal(w.m)
		j.Append(fmt.Sprintf("%d %s %s", i, res, mb))
	}
	order := h.Order()
	h.Uninstall()
	ob, _ := json.Marshal(order)
	_ = os.WriteFile(sp.Out, ob, 0o644)
	w.close()
	os.Exit(0)
}

type vf09CrashHist struct {
	idx    int
	wc     bool
	bcount int
	uni    vf09Universe
	ops    []vf09Op
}

func (hs *vf09CrashHist) describe() map[string]any {
	var ops []string
	for _, o := range hs.ops {
		ops = append(ops, o.String())
	}
	return map[string]any{"history": hs.idx, "write_cache": hs.wc, "tombstone_expirations": hs.uni.TombExp, "ops": ops}
}

// vf09GenCrashHist: short scripts that put objects (cached, flushed or both), request
// their removal in the three ways and run the procedures that remove them.
func vf09GenCrashHist(r *verifkit.Run, idx int) *vf09CrashHist {
	rng := r.Rand("crash-hist", idx)
	n := 3
	hs := &vf09CrashHist{idx: idx, wc: idx%3 != 2, bcount: 2 + rng.IntN(2), uni: vf09GenUniverse(r, "crash-uni", idx, n)}
	var ops []vf09Op
	for i := 0; i < n; i++ {
		ops = append(ops, vf09Op{Kind: "put", Obj: i})
	}
	if hs.wc {
		// where the removals find the objects: flushed (maybe with a newer cached copy on top),
		// still only cached, or flushed by the cache's own scheduler.  Rotated over the
		// write-cache histories (offset by the seed) so that every tier enumerates the crash
		// points of a deletion for each of them.
		wcOrd := idx - (idx+1)/3
		switch (wcOrd + r.Rand("crash-mix", 0).IntN(3)) % 3 {
		case 0:
			ops = append(ops, vf09Op{Kind: "flush"})
			if rng.IntN(2) == 0 {
				ops = append(ops, vf09Op{Kind: "put", Obj: rng.IntN(n)}) // cached copy on top of the flushed one
			}
		case 1: // removal meets cached objects
		default:
			ops = append(ops, vf09Op{Kind: "bgflush"})
		}
	}
	kinds := []string{"tomb", "drop", "mark"}
	perm := rng.Perm(n)
	for j, i := range perm {
		ops = append(ops, vf09Op{Kind: kinds[(j+idx)%3], Obj: i})
		if rng.IntN(3) == 0 {
			ops = append(ops, vf09Op{Kind: "gc"})
		}
	}
	ops = append(ops, vf09Op{Kind: "gc"})
	if hs.wc && rng.IntN(2) == 0 {
		ops = append(ops, vf09Op{Kind: "bgflush"})
	}
	hs.ops = ops
	return hs
}

type vf09CrashJob struct {
	hs    *vf09CrashHist
	name  string
	k     int
	step  string
	dry   bool
	order []string
}

func vf09RunChild(r *verifkit.Run, base string, jb *vf09CrashJob) (dir string, res verifkit.ChildResult, journal []string) {
	dir, err := os.MkdirTemp(base, fmt.Sprintf("c09-h%d-", jb.hs.idx))
	if err != nil {
		r.Inconclusive(err.Error())
		return "", res, nil
	}
	data := filepath.Join(dir, "data")
	_ = os.MkdirAll(data, 0o755)
	sp := vf09CrashSpec{Dir: data, WC: jb.hs.wc, Thr: 2048, BCount: jb.hs.bcount, Uni: jb.hs.uni, Ops: jb.hs.ops,
		Out: filepath.Join(dir, "order.json"), Journal: filepath.Join(dir, "journal")}
	if !jb.dry {
		sp.CrashName, sp.CrashK = jb.name, jb.k
	}
	sb, _ := json.Marshal(sp)
	specPath := filepath.Join(dir, "spec.json")
	_ = os.WriteFile(specPath, sb, 0o644)
	res = verifkit.SpawnChild("TestVerif_C09Crash", specPath, nil, 180*time.Second)
	if jb.dry {
		if ob, err := os.ReadFile(sp.Out); err == nil {
			_ = json.Unmarshal(ob, &jb.order)
		}
	}
	return dir, res, verifkit.ReadJournal(sp.Journal)
}

func vf09CopyTree(src, dst string) error {
	return filepath.WalkDir(src, func(p string, d fs.DirEntry, err error) error {
		if err != nil {
			return err
		}
		rel, _ := filepath.Rel(src, p)
		target := filepath.Join(dst, rel)
		if d.IsDir() {
			return os.MkdirAll(target, 0o755)
		}
		b, err := os.ReadFile(p)
		if err != nil {
			return err
		}
		return os.WriteFile(target, b, 0o644)
	})
}

// vf09Continue reopens a crashed store and walks one continuation under the oracle.
func vf09Continue(r *verifkit.Run, jb *vf09CrashJob, data string, journal []string, ci int, cont []vf09Op) {
	inProgress := vf09Op{Kind: "none"}
	if len(journal) < len(jb.hs.ops) {
		inProgress = jb.hs.ops[len(journal)]
	}
	scenario := "crash|during=" + inProgress.Kind
	w, err := vf09NewWorld(scenario, data, jb.hs.wc, 2048, jb.hs.bcount, false, jb.hs.uni)
	if err != nil {
		r.Inconclusive(err.Error())
		return
	}
	w.attach(r)
	// the oracle's memory as the child left it after its last completed operation
	if len(journal) > 0 {
		f := strings.SplitN(journal[len(journal)-1], " ", 3)
		if len(f) == 3 {
			var m vf09Model
			if json.Unmarshal([]byte(f[2]), &m) == nil && len(m.Req) == len(w.m.Req) && len(m.Proc) == len(w.m.Req) && len(m.Rec) == len(w.m.Req) {
				w.m = m
			}
		}
	}
	w.ep.v.Store(w.m.Epoch)
	for i := 0; i < len(journal) && i < len(jb.hs.ops); i++ {
		w.trace = append(w.trace, jb.hs.ops[i].String())
	}
	w.trace = append(w.trace, fmt.Sprintf("[crash at %s#%d during %s]", jb.name, jb.k, inProgress))
	// the operation cut by the crash: a removal request was issued / a put may have stored the object
	switch inProgress.Kind {
	case "put":
		w.forget(inProgress.Obj)
	case "tomb":
		w.request(inProgress.Obj, "tombstoned")
	case "drop":
		w.request(inProgress.Obj, "dropped")
	case "mark":
		w.request(inProgress.Obj, "marked")
	case "gc":
		w.gcWorks()
	}
	desc := func() map[string]any {
		d := w.describe()
		d["crash_history"] = jb.hs.describe()
		d["crash_point"] = fmt.Sprintf("%s#%d", jb.name, jb.k)
		d["continuation"] = ci
		return d
	}
	var oerr error
	if r.Guard(desc(), func() { oerr = w.open() }) {
		return
	}
	if oerr != nil {
		r.Violation("reopen-failed|"+scenario, "shard does not reopen after the crash: "+oerr.Error(), desc())
		return
	}
	defer w.close()
	extra := fmt.Sprintf("crash at %s#%d after step %s, continuation %d", jb.name, jb.k, jb.step, ci)
	// What did the crash leave of every object?  Probed before anything else runs on the
	// reopened store.  If the cut operation was a removal procedure (the drop of this object /
	// a GC pass) working on an object the node still had a record of, and that record is gone
	// now, the metadata step of the deletion is through: the node has dropped the object from
	// its records and nothing will ever resume the deletion, i.e. the object HAS BEEN REMOVED
	// from the node as far as the node is concerned (this is the state the statement's
	// quantifier calls "between the metadata and blob steps of a deletion").  From here on no
	// read may return it – including the very first read after the restart.
	w.left = make([]string, len(w.objs))
	if r.Guard(desc(), func() {
		for i := range w.objs {
			st, _ := w.sh.metaBase.ObjectStatus(w.objs[i].Address())
			gone := len(st.HeaderIndex) == 0
			_, _, loc := w.dataIn(i)
			if gone {
				w.left[i] = loc + "-without-metadata"
				if loc == "nowhere" {
					w.left[i] = "nothing"
				}
			} else {
				w.left[i] = "record+data-in-" + loc
			}
			r.Seen("crash_left_of_object", w.left[i])
			cutRemoval := inProgress.Kind == "gc" || (inProgress.Kind == "drop" && inProgress.Obj == i)
			if cutRemoval && gone && !w.m.Removed[i] && w.m.Req[i] != "" && w.m.Proc[i] && w.m.Rec[i] {
				w.m.Removed[i] = true
				w.m.Since[i] = fmt.Sprintf("#%d %s cut by the crash after its metadata step", len(w.trace), inProgress)
				r.Count("objects_removed_by_metadata_step_of_cut_deletion", 1)
				r.Count("objects_observed_removed", 1)
				r.Seen("removed_by", w.m.Req[i])
				if loc != "nowhere" {
					r.Count("deletions_cut_after_metadata_step_with_data_left", 1)
				}
			}
		}
	}) {
		return
	}
	w.observe("crash-restart", extra)
	for _, op := range cont {
		var err error
		if r.Guard(desc(), func() { err = w.apply(op) }) {
			return
		}
		if err != nil && (op.Kind == "restart" || strings.HasPrefix(op.Kind, "resync")) {
			r.Violation(fmt.Sprintf("step-failed|%s|%s", scenario, op.Kind), fmt.Sprintf("%s failed after crash recovery: %v", op.Kind, err), desc())
			return
		}
		w.observe(op.Kind, extra)
	}
}

func vf09NormStep(s string) string {
	switch s {
	case "", "shard.put.meta", "shard.delete.blobs":
		return "start"
	}
	return s
}

func TestVerif_C09Crash(t *testing.T) {
	if spec, ok := verifkit.ChildSpec(); ok {
		vf09Child(spec)
		return
	}
	r := verifkit.Start(t, "C09", "fault_enumeration")
	defer r.Finish()
	r.SetRule("history = seeded script: 3 objects put (cached, flushed, or both), removal requested by tombstone / drop / garbage mark, GC passes, background flush; case = (history, step point of shard put/delete or write-cache put/delete/flush, k-th hit) from a dry run, the child is SIGKILLed there; every crashed store is copied and continued 4 ways, 2 of them in the quick tier (flush, GC, epoch beyond every tombstone expiration, offline resync, restart in different orders: resync after the expired tombstones were collected, while they are alive, after they expired but before GC collected them) under the oracle; non-trivial = the child really died at the point; distinct = (history, point, k)")
	r.Assume("the write-cache's background scheduler is held at its hand-off point except inside the 'bgflush' operation (accidental flush/delete interleavings belong to the race part)")
	r.Assume("process-crash model (SIGKILL at the step boundary; no power loss); the oracle's memory up to the crash is journalled by the child after every completed operation; the operation cut by the crash counts as a removal request (tombstone/drop/mark) or as a new upload (put)")
	base := os.Getenv("VERIF_SCRATCH")
	if base == "" {
		base = os.TempDir()
	}
	nHist := r.Pick(5, 30)
	par := r.Pick(12, 12)
	conts := vf09Continuations(20)
	var hists []*vf09CrashHist
	for i := 0; i < nHist; i++ {
		hists = append(hists, vf09GenCrashHist(r, i))
	}
	run := func(jobs []*vf09CrashJob, f func(*vf09CrashJob)) {
		sem := make(chan struct{}, par)
		var wg sync.WaitGroup
		for _, jb := range jobs {
			wg.Add(1)
			sem <- struct{}{}
			go func() {
				defer wg.Done()
				defer func() { <-sem }()
				f(jb)
			}()
		}
		wg.Wait()
	}
	var dry []*vf09CrashJob
	for _, hs := range hists {
		dry = append(dry, &vf09CrashJob{hs: hs, dry: true})
	}
	run(dry, func(jb *vf09CrashJob) {
		dir, res, journal := vf09RunChild(r, base, jb)
		defer os.RemoveAll(dir)
		if res.ExitCode != 0 || res.Signaled || len(journal) != len(jb.hs.ops) {
			r.Inconclusive(fmt.Sprintf("history %d: dry run did not complete (exit %d, %d/%d ops): %s", jb.hs.idx, res.ExitCode, len(journal), len(jb.hs.ops), strings.TrimSpace(res.Output)))
			jb.order = nil
			return
		}
		r.Sample(map[string]any{"history": jb.hs.describe(), "step_boundaries_passed": len(jb.order)})
	})
	var jobs []*vf09CrashJob
	for _, d := range dry {
		cnt := map[string]int{}
		step := ""
		n := 0
		for _, name := range d.order {
			if name == vf09OpMark {
				step = ""
				continue
			}
			cnt[name]++
			if strings.HasPrefix(name, "shard.") || strings.HasPrefix(name, "writecache.") {
				jobs = append(jobs, &vf09CrashJob{hs: d.hs, name: name, k: cnt[name], step: vf09NormStep(step)})
				r.Seen("crash_points_enumerated", name)
				n++
			}
			if strings.HasPrefix(name, "shard.") {
				step = name
			}
		}
		r.Count("crash_cases_enumerated", n)
	}
	if len(jobs) == 0 {
		r.Inconclusive("no hook point was passed by any history (hooks not compiled into this tree?)")
		return
	}
	run(jobs, func(jb *vf09CrashJob) {
		dir, res, journal := vf09RunChild(r, base, jb)
		defer os.RemoveAll(dir)
		r.Eval(1)
		crashed := res.Signaled && res.Signal == syscall.SIGKILL && !res.TimedOut
		switch {
		case crashed:
			r.Count("crash_cases_reached", 1)
			r.Seen("crash_points_reached", jb.name)
			r.Distinct(fmt.Sprintf("h%d|%s|%d", jb.hs.idx, jb.name, jb.k))
		case res.ExitCode == 0 && !res.TimedOut && !res.Signaled:
			r.Count("crash_cases_point_not_reached", 1)
		default:
			r.Inconclusive(fmt.Sprintf("history %d crash@%s#%d: child ended unexpectedly (exit %d, signal %v, timeout %v): %s", jb.hs.idx, jb.name, jb.k, res.ExitCode, res.Signal, res.TimedOut, strings.TrimSpace(res.Output)))
			return
		}
		for ci, cont := range conts {
			// quick: two neighbouring continuations per case, the pair rotating with the case, so that
			// every continuation follows half of the crash cases of every history
			if first := (jb.k + len(jb.name)) % len(conts); !r.Thorough() && ci != first && ci != (first+1)%len(conts) {
				continue
			}
			cp := filepath.Join(dir, fmt.Sprintf("cont%d", ci))
			if err := vf09CopyTree(filepath.Join(dir, "data"), cp); err != nil {
				r.Inconclusive("copy crashed store: " + err.Error())
				return
			}
			vf09Continue(r, jb, cp, journal, ci, cont)
			r.Count("continuations_walked", 1)
			_ = os.RemoveAll(cp)
		}
	})
	if e, re := r.Counter("crash_cases_enumerated"), r.Counter("crash_cases_reached"); re*10 < e*9 {
		r.Inconclusive(fmt.Sprintf("only %d of %d enumerated crash points were reached", re, e))
	}
}
