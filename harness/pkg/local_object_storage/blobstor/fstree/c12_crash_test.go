//go:build verif

package fstree

// C12 – a crash during a blob write never exposes partial or wrong object bytes.
//
// Crash runner (process-crash model): for every generated script the parent first runs a
// dry child that counts how often every instrumentation point of the FSTree writers
// (internal/verifhook, "fstree.*.before/after" around each syscall) is passed.  Then one
// child process per (point, k-th hit) replays the script on a fresh directory and
// SIGKILLs itself exactly there.  Every operation is journalled (O_APPEND|O_SYNC) before
// it starts and after it returned, so the parent knows which writes were acknowledged.
// The parent reopens the directory with a new FSTree and judges what it can read with an
// oracle written from the property statement only.

import (
	"bytes"
	"encoding/json"
	"errors"
	"fmt"
	"io"
	"math/rand/v2"
	"os"
	"path/filepath"
	"sort"
	"strconv"
	"strings"
	"sync"
	"syscall"
	"testing"
	"time"

	"github.com/nspcc-dev/neofs-node/internal/verifhook"
	"github.com/nspcc-dev/neofs-node/internal/verifkit"
	"github.com/nspcc-dev/neofs-node/pkg/local_object_storage/blobstor/common"
	apistatus "github.com/nspcc-dev/neofs-sdk-go/client/status"
	"github.com/nspcc-dev/neofs-sdk-go/object"
	oid "github.com/nspcc-dev/neofs-sdk-go/object/id"
)

type vf12Cfg struct {
	Generic    bool   `json:"generic"`
	Depth      uint64 `json:"depth"`
	NoSync     bool   `json:"nosync"`
	CountLimit int    `json:"count_limit"`
	SizeLimit  int    `json:"size_limit"`
	Threshold  int    `json:"threshold"`
	IntervalMs int    `json:"interval_ms"`
}

type vf12Obj struct {
	SeedA   uint64 `json:"a"`
	SeedB   uint64 `json:"b"`
	Payload int    `json:"payload"`
}

// vf12Op: Kind is "put" (one object), "batch" (PutBatch of 1–8), "cput" (concurrent Puts,
// the way the combined writer gets multi-object batches) or "del".
type vf12Op struct {
	Kind string `json:"kind"`
	Objs []int  `json:"objs"`
}

type vf12Spec struct {
	Dir     string    `json:"dir"`
	Journal string    `json:"journal"`
	Cfg     vf12Cfg   `json:"cfg"`
	Objs    []vf12Obj `json:"objs"`
	Ops     []vf12Op  `json:"ops"`
	Point   string    `json:"point,omitempty"` // crash point ("" = dry run)
	K       int       `json:"k,omitempty"`
}

const vf12OpReturned = "harness.op.returned" // crash point "after the last syscall of an op, before its acknowledgement"

func vf12Open(dir string, c vf12Cfg) (*FSTree, error) {
	t := New(WithPath(dir), WithDepth(c.Depth), WithPerm(0o700), WithNoSync(c.NoSync),
		WithCombinedCountLimit(c.CountLimit), WithCombinedSizeLimit(c.SizeLimit),
		WithCombinedSizeThreshold(c.Threshold), WithCombinedWriteInterval(time.Duration(c.IntervalMs)*time.Millisecond))
	if err := t.Open(false); err != nil {
		return nil, err
	}
	if err := t.Init(common.ID{}); err != nil {
		return nil, err
	}
	if c.Generic {
		// the portable temp-file+rename writer (what Init leaves in place where O_TMPFILE is unsupported)
		t.writer = newGenericWriter(t.Permissions, t.noSync)
	}
	return t, nil
}

func vf12Make(o vf12Obj) (oid.Address, []byte) {
	rng := rand.New(rand.NewPCG(o.SeedA, o.SeedB))
	obj := verifkit.NewObject(rng, verifkit.RandCID(rng), verifkit.RandUser(rng), o.Payload)
	return verifkit.Addr(obj), obj.Marshal()
}

// ---------------------------------------------------------------- child

// vf12Journal is the acknowledgement log of a crash child: one write(2) per line on an
// O_APPEND descriptor.  In the process-crash model of the property a completed write(2)
// survives the SIGKILL, so no fsync is needed (and none is wanted: hundreds of children).
type vf12Journal struct {
	mu sync.Mutex
	f  *os.File
}

func vf12OpenJournal(path string) (*vf12Journal, error) {
	f, err := os.OpenFile(path, os.O_CREATE|os.O_WRONLY|os.O_APPEND, 0o644)
	if err != nil {
		return nil, err
	}
	return &vf12Journal{f: f}, nil
}

func (j *vf12Journal) Append(line string) {
	j.mu.Lock()
	defer j.mu.Unlock()
	_, _ = j.f.WriteString(strings.ReplaceAll(line, "\n", " ") + "\n")
}

func (j *vf12Journal) Close() { _ = j.f.Close() }

func vf12Child(t *testing.T, specPath string) {
	b, err := os.ReadFile(specPath)
	if err != nil {
		t.Fatalf("child: read spec: %v", err)
	}
	var sp vf12Spec
	if err := json.Unmarshal(b, &sp); err != nil {
		t.Fatalf("child: spec: %v", err)
	}
	j, err := vf12OpenJournal(sp.Journal)
	if err != nil {
		t.Fatalf("child: journal: %v", err)
	}
	fst, err := vf12Open(sp.Dir, sp.Cfg)
	if err != nil {
		j.Append("FATAL open: " + err.Error())
		t.Fatalf("child: open: %v", err)
	}
	if _, isLinux := fst.writer.(*linuxWriter); !sp.Cfg.Generic && !isLinux {
		j.Append("FATAL no-linux-writer")
		t.Fatalf("child: O_TMPFILE writer unavailable")
	}
	addrs := make([]oid.Address, len(sp.Objs))
	datas := make([][]byte, len(sp.Objs))
	for i, o := range sp.Objs {
		addrs[i], datas[i] = vf12Make(o)
	}
	h := verifkit.InstallHooks()
	if sp.Point != "" {
		h.CrashAt(sp.Point, sp.K)
	}
	for i, op := range sp.Ops {
		switch op.Kind {
		case "put":
			o := op.Objs[0]
			j.Append(fmt.Sprintf("S put %d %d", i, o))
			err := fst.Put(addrs[o], datas[o])
			verifhook.Point(vf12OpReturned)
			vf12Ack(j, "put", i, o, err)
		case "del":
			o := op.Objs[0]
			j.Append(fmt.Sprintf("S del %d %d", i, o))
			err := fst.Delete(addrs[o])
			verifhook.Point(vf12OpReturned)
			vf12Ack(j, "del", i, o, err)
		case "batch":
			m := map[oid.Address][]byte{}
			for _, o := range op.Objs {
				j.Append(fmt.Sprintf("S put %d %d", i, o))
				m[addrs[o]] = datas[o]
			}
			err := fst.PutBatch(m)
			verifhook.Point(vf12OpReturned)
			for _, o := range op.Objs {
				vf12Ack(j, "put", i, o, err)
			}
		case "cput":
			var wg sync.WaitGroup
			for _, o := range op.Objs {
				j.Append(fmt.Sprintf("S put %d %d", i, o))
			}
			for _, o := range op.Objs {
				wg.Add(1)
				go func() {
					defer wg.Done()
					err := fst.Put(addrs[o], datas[o])
					verifhook.Point(vf12OpReturned)
					vf12Ack(j, "put", i, o, err)
				}()
			}
			wg.Wait()
		}
	}
	cnt, _ := json.Marshal(h.Counts())
	j.Append("COUNTS " + string(cnt))
	if err := fst.Close(); err != nil {
		j.Append("E close " + err.Error())
	}
	j.Append("DONE")
	h.Uninstall()
	j.Close()
}

func vf12Ack(j *vf12Journal, kind string, op, o int, err error) {
	if err == nil {
		j.Append(fmt.Sprintf("A %s %d %d", kind, op, o))
		return
	}
	nf := 0
	if errors.Is(err, apistatus.ErrObjectNotFound) {
		nf = 1
	}
	j.Append(fmt.Sprintf("E %s %d %d %d %s", kind, op, o, nf, err.Error()))
}

// ---------------------------------------------------------------- parent

// object status derived from the journal (what the statement lets us demand)
const (
	vf12Never   = iota // no write ever started
	vf12Maybe          // a write started but was never acknowledged, or a deletion started: present or absent, both fine
	vf12Present        // a write returned success and no deletion started since: MUST be readable, identical bytes
	vf12Deleted        // a deletion returned success (the statement does not constrain it further)
)

type vf12Gen struct {
	cfg  vf12Cfg
	objs []vf12Obj
	ops  []vf12Op
}

func vf12Generate(rng *rand.Rand, idx int) vf12Gen {
	var g vf12Gen
	c := &g.cfg
	c.Generic = idx%3 == 2
	c.Depth = uint64(rng.IntN(3))
	c.NoSync = rng.IntN(3) == 0
	c.Threshold = []int{600, 1500, 4096}[rng.IntN(3)]
	c.CountLimit = []int{1, 2, 3, 4, 8, 128}[rng.IntN(6)]
	c.SizeLimit = []int{500, 2000, 6000, 1 << 20}[rng.IntN(4)]
	c.IntervalMs = 1 + rng.IntN(5)
	nObj := 3 + rng.IntN(8)
	for i := 0; i < nObj; i++ {
		var pl int
		switch rng.IntN(6) {
		case 0:
			pl = rng.IntN(40) // tiny
		case 1, 2:
			pl = 50 + rng.IntN(400) // small: combined
		case 3:
			pl = c.Threshold - 260 + rng.IntN(120) // marshalled size around the combined threshold
			if pl < 0 {
				pl = 0
			}
		case 4:
			pl = c.Threshold + 1 + rng.IntN(3000) // single file
		default:
			pl = 20000 + rng.IntN(150000) // big single file
		}
		g.objs = append(g.objs, vf12Obj{SeedA: rng.Uint64(), SeedB: rng.Uint64(), Payload: pl})
	}
	nOps := 5 + rng.IntN(3)
	written := []int{}
	pickN := func(n int) []int {
		p := rng.Perm(nObj)
		if n > nObj {
			n = nObj
		}
		return p[:n]
	}
	must := []int{0, 3, 5, 7, 9} // put, batch, cput (linux only), del, re-put: every script has each kind once
	rng.Shuffle(len(must), func(a, b int) { must[a], must[b] = must[b], must[a] })
	if must[0] == 7 { // a deletion needs something written before it
		must[0], must[len(must)-1] = must[len(must)-1], must[0]
	}
	if nOps < len(must) {
		nOps = len(must)
	}
	for i := 0; i < nOps; i++ {
		k := rng.IntN(10)
		if i < len(must) {
			k = must[i]
		}
		switch {
		case k < 3:
			o := rng.IntN(nObj)
			g.ops = append(g.ops, vf12Op{Kind: "put", Objs: []int{o}})
			written = append(written, o)
		case k < 5:
			os := pickN(1 + rng.IntN(8))
			g.ops = append(g.ops, vf12Op{Kind: "batch", Objs: os})
			written = append(written, os...)
		case k < 7 && !c.Generic:
			os := pickN(2 + rng.IntN(7))
			g.ops = append(g.ops, vf12Op{Kind: "cput", Objs: os})
			written = append(written, os...)
		case k < 9 && len(written) > 0:
			g.ops = append(g.ops, vf12Op{Kind: "del", Objs: []int{written[rng.IntN(len(written))]}})
		default:
			// re-put of something already written (existing link / existing file must be tolerated)
			o := rng.IntN(nObj)
			if len(written) > 0 {
				o = written[rng.IntN(len(written))]
			}
			g.ops = append(g.ops, vf12Op{Kind: "put", Objs: []int{o}})
			written = append(written, o)
		}
	}
	return g
}

type vf12Job struct {
	caseIdx int
	gen     vf12Gen
	point   string
	k       int
}

func TestVerif_C12(t *testing.T) {
	if spec, ok := verifkit.ChildSpec(); ok {
		vf12Child(t, spec)
		return
	}
	r := verifkit.Start(t, "C12", "fault_enumeration")
	defer r.Finish()
	if !verifhook.Enabled {
		r.Inconclusive("verifhook not compiled in")
		return
	}
	nCases := r.Pick(6, 70)
	r.SetRule("per seeded script (config: linux O_TMPFILE/combined or generic writer, depth 0-2, count/size limits, sync on/off; 3-7 ops of Put / PutBatch(1-8) / concurrent Puts(2-8) / Delete / re-Put over 3-10 objects of mixed sizes) every (instrumentation point, k-th hit) seen in a dry run is a crash case: a child SIGKILLs itself there, the parent reopens and checks all reads; distinct = (script, point, k) whose child really died at the point")
	r.Assume("process-crash model: bytes handed to the kernel survive; power loss / torn sectors not modelled")
	r.Assume("crash points are the syscall boundaries instrumented by hook commit H2; a crash inside a syscall is not modelled")
	scratch := os.Getenv("VERIF_SCRATCH")
	if scratch == "" {
		scratch = t.TempDir()
	}
	root, err := os.MkdirTemp(scratch, "c12-")
	if err != nil {
		t.Fatal(err)
	}
	defer os.RemoveAll(root)

	var jobs []vf12Job
	enumerated := 0
	for ci := 0; ci < nCases; ci++ {
		g := vf12Generate(r.Rand("script", ci), ci)
		// dry run in a child: count the points
		res, jl := vf12Run(root, fmt.Sprintf("dry-%d", ci), g, "", 0)
		counts := map[string]int{}
		done := false
		for _, l := range jl {
			if strings.HasPrefix(l, "COUNTS ") {
				_ = json.Unmarshal([]byte(l[7:]), &counts)
			}
			if l == "DONE" {
				done = true
			}
			if f := strings.Fields(l); f[0] == "E" && !(len(f) >= 5 && f[1] == "del" && f[4] == "1") {
				r.Count("dry_run_unexpected_errors", 1)
				r.Inconclusive("operation failed on a healthy file system in dry run: " + l)
			}
		}
		if !done || res.ExitCode != 0 || res.Signaled {
			r.Inconclusive(fmt.Sprintf("dry run of script %d did not finish: exit=%d signaled=%v timeout=%v out=%s", ci, res.ExitCode, res.Signaled, res.TimedOut, vf12Tail(res.Output)))
			continue
		}
		// the dry run itself is a (crash-free) case
		vf12Check(r, root, fmt.Sprintf("dry-%d", ci), ci, g, "", 0, jl, false)
		os.RemoveAll(filepath.Join(root, fmt.Sprintf("dry-%d", ci)))
		names := make([]string, 0, len(counts))
		for n := range counts {
			names = append(names, n)
		}
		sort.Strings(names)
		for _, n := range names {
			if !r.Thorough() && strings.HasSuffix(n, ".after") {
				// quick tier: an ".after" point has the same on-disk state as the next ".before"/op-returned point
				r.Count("points_skipped_in_quick_tier", counts[n])
				continue
			}
			for k := 1; k <= counts[n]; k++ {
				jobs = append(jobs, vf12Job{caseIdx: ci, gen: g, point: n, k: k})
				enumerated++
			}
			r.Count("points_enumerated|"+n, counts[n])
		}
		if ci < 3 {
			r.Sample(map[string]any{"script": ci, "cfg": g.cfg, "ops": g.ops, "payloads": vf12Payloads(g), "points": counts})
		}
		wr := "linux"
		if g.cfg.Generic {
			wr = "generic"
		}
		r.Count("scripts_"+wr, 1)
	}
	r.Count("crash_cases_enumerated", enumerated)

	// run the crash children, a few at a time
	var wg sync.WaitGroup
	ch := make(chan int)
	var reached, unreached int64
	var mu sync.Mutex
	for w := 0; w < r.Pick(4, 6); w++ {
		wg.Add(1)
		go func() {
			defer wg.Done()
			for ji := range ch {
				jb := jobs[ji]
				name := fmt.Sprintf("c%d-%d", jb.caseIdx, ji)
				res, jl := vf12Run(root, name, jb.gen, jb.point, jb.k)
				r.Eval(1)
				crashed := res.Signaled && res.Signal == syscall.SIGKILL && !res.TimedOut
				finished := false
				for _, l := range jl {
					if l == "DONE" {
						finished = true
					}
				}
				switch {
				case crashed:
					mu.Lock()
					reached++
					mu.Unlock()
					r.Count("points_reached|"+jb.point, 1)
					r.Distinct(fmt.Sprintf("%d|%s|%d", jb.caseIdx, jb.point, jb.k))
				case finished && res.ExitCode == 0:
					// the schedule of this child passed the point fewer times (concurrent puts): a crash-free case
					mu.Lock()
					unreached++
					mu.Unlock()
					r.Count("points_unreached|"+jb.point, 1)
				default:
					r.Inconclusive(fmt.Sprintf("crash child %s (%s#%d) ended unexpectedly: exit=%d signaled=%v timeout=%v out=%s", name, jb.point, jb.k, res.ExitCode, res.Signaled, res.TimedOut, vf12Tail(res.Output)))
					os.RemoveAll(filepath.Join(root, name))
					continue
				}
				vf12Check(r, root, name, jb.caseIdx, jb.gen, jb.point, jb.k, jl, crashed)
				os.RemoveAll(filepath.Join(root, name))
			}
		}()
	}
	for ji := range jobs {
		ch <- ji
	}
	close(ch)
	wg.Wait()
	r.Count("crash_cases_child_died_at_point", int(reached))
	r.Count("crash_cases_point_not_reached", int(unreached))
	if enumerated > 0 && unreached == 0 {
		r.SetExhaustive(true) // every enumerated crash point of every script was exercised
	}
	if enumerated > 0 && unreached*5 > int64(enumerated) {
		r.Inconclusive(fmt.Sprintf("%d of %d enumerated crash points were not reached by their child", unreached, enumerated))
	}
}

func vf12Payloads(g vf12Gen) []int {
	p := make([]int, len(g.objs))
	for i, o := range g.objs {
		p[i] = o.Payload
	}
	return p
}

func vf12Tail(s string) string {
	if len(s) > 1500 {
		s = s[len(s)-1500:]
	}
	return s
}

// vf12Run executes the script in a child on a fresh directory and returns the journal.
func vf12Run(root, name string, g vf12Gen, point string, k int) (verifkit.ChildResult, []string) {
	base := filepath.Join(root, name)
	_ = os.MkdirAll(base, 0o755)
	sp := vf12Spec{Dir: filepath.Join(base, "tree"), Journal: filepath.Join(base, "journal"), Cfg: g.cfg, Objs: g.objs, Ops: g.ops, Point: point, K: k}
	b, _ := json.Marshal(sp)
	specPath := filepath.Join(base, "spec.json")
	_ = os.WriteFile(specPath, b, 0o644)
	res := verifkit.SpawnChild("TestVerif_C12", specPath, nil, 120*time.Second)
	return res, verifkit.ReadJournal(sp.Journal)
}

// vf12Check is the recovery oracle.
func vf12Check(r *verifkit.Run, root, name string, ci int, g vf12Gen, point string, k int, journal []string, crashed bool) {
	desc := map[string]any{"script": ci, "cfg": g.cfg, "ops": g.ops, "objs": g.objs, "crash_point": point, "k": k, "journal": journal}
	n := len(g.objs)
	status := make([]int, n)
	inOp := ""
	for _, l := range journal {
		f := strings.Fields(l)
		if len(f) < 4 || (f[0] != "S" && f[0] != "A" && f[0] != "E") {
			continue
		}
		o, _ := strconv.Atoi(f[3])
		switch f[0] + f[1] {
		case "Sput":
			if status[o] != vf12Present { // re-put of a stored object: it stays demanded
				status[o] = vf12Maybe
			}
			inOp = g.ops[vf12Atoi(f[2])].Kind
		case "Aput":
			status[o] = vf12Present
		case "Eput":
			if status[o] != vf12Present {
				status[o] = vf12Maybe
			}
			r.Count("child_put_errors", 1)
		case "Sdel":
			if status[o] != vf12Never {
				status[o] = vf12Maybe
			}
			inOp = "del"
		case "Adel":
			status[o] = vf12Deleted
		case "Edel":
			// failed deletion (not found): nothing changes
		}
	}
	if crashed {
		r.Seen("op_kind_running_at_crash", inOp)
	}
	addrs := make([]oid.Address, n)
	datas := make([][]byte, n)
	byAddr := map[oid.Address]int{}
	for i, o := range g.objs {
		addrs[i], datas[i] = vf12Make(o)
		byAddr[addrs[i]] = i
	}
	wr := "linux"
	if g.cfg.Generic {
		wr = "generic"
	}
	stName := []string{"never", "maybe", "present", "deleted"}
	dir := filepath.Join(root, name, "tree")

	// leftover temp files the crash left on disk (evidence only)
	_ = filepath.WalkDir(dir, func(p string, d os.DirEntry, err error) error {
		if err == nil && !d.IsDir() && strings.Contains(d.Name(), "#") {
			r.Count("leftover_temp_files_found_after_crash", 1)
		}
		return nil
	})
	for pass := 0; pass < 2; pass++ {
		passName := []string{"reopen", "reopen+CleanUpTmp"}[pass]
		key := func(s string) string {
			return fmt.Sprintf("%s|%s|%s|point=%s", s, wr, passName, point)
		}
		var fst *FSTree
		var err error
		if r.Guard(desc, func() { fst, err = vf12Open(dir, g.cfg) }) {
			return
		}
		if err != nil {
			r.Violation(key("reopen-failed"), fmt.Sprintf("storage cannot be reopened after the crash: %v", err), desc)
			return
		}
		if pass == 1 {
			if err := fst.CleanUpTmp(); err != nil {
				r.Violation(key("cleanuptmp-failed"), fmt.Sprintf("CleanUpTmp failed: %v", err), desc)
			}
		}
		r.Guard(desc, func() {
			for i := 0; i < n; i++ {
				got, err := fst.GetBytes(addrs[i])
				r.Count("reads_"+stName[status[i]], 1)
				if err == nil {
					r.Count("readable_"+stName[status[i]], 1)
					if !bytes.Equal(got, datas[i]) {
						r.Violation(key("wrong-bytes|GetBytes|status="+stName[status[i]]), fmt.Sprintf("object %d (%s, %d bytes) readable with %d different bytes (common prefix %d)", i, addrs[i], len(datas[i]), len(got), vf12Common(got, datas[i])), desc)
					}
				} else if status[i] == vf12Present {
					r.Violation(key("acked-write-lost|GetBytes"), fmt.Sprintf("object %d (%s) whose write returned success is not readable: %v", i, addrs[i], err), desc)
				} else if !errors.Is(err, apistatus.ErrObjectNotFound) {
					r.Seen("non_notfound_errors_on_unacked", vf12ErrShape(err))
				}
				// the other read paths must agree on "present" objects and never give different bytes
				obj, gerr := fst.Get(addrs[i])
				if gerr == nil {
					if !bytes.Equal(obj.Marshal(), datas[i]) {
						r.Violation(key("wrong-bytes|Get|status="+stName[status[i]]), fmt.Sprintf("Get of object %d decodes to a different object", i), desc)
					}
				} else if status[i] == vf12Present {
					r.Violation(key("acked-write-lost|Get"), fmt.Sprintf("object %d whose write returned success: Get: %v", i, gerr), desc)
				}
				hdr, rd, serr := fst.GetStream(addrs[i])
				if serr == nil {
					pl, rerr := io.ReadAll(rd)
					_ = rd.Close()
					var want object.Object
					_ = want.Unmarshal(datas[i])
					if rerr != nil || !bytes.Equal(pl, want.Payload()) || hdr == nil || hdr.GetID() != want.GetID() || hdr.PayloadSize() != want.PayloadSize() {
						r.Violation(key("wrong-bytes|GetStream|status="+stName[status[i]]), fmt.Sprintf("GetStream of object %d: payload %d bytes (want %d), read err %v", i, len(pl), len(want.Payload()), rerr), desc)
					}
				} else if status[i] == vf12Present {
					r.Violation(key("acked-write-lost|GetStream"), fmt.Sprintf("object %d whose write returned success: GetStream: %v", i, serr), desc)
				}
				if hd, herr := fst.Head(addrs[i]); herr == nil {
					var want object.Object
					_ = want.Unmarshal(datas[i])
					if hd.GetID() != want.GetID() || hd.PayloadSize() != want.PayloadSize() || hd.GetContainerID() != want.GetContainerID() {
						r.Violation(key("wrong-bytes|Head|status="+stName[status[i]]), fmt.Sprintf("Head of object %d returns a different header", i), desc)
					}
				} else if status[i] == vf12Present {
					r.Violation(key("acked-write-lost|Head"), fmt.Sprintf("object %d whose write returned success: Head: %v", i, herr), desc)
				}
				if ex, eerr := fst.Exists(addrs[i]); status[i] == vf12Present && (eerr != nil || !ex) {
					r.Violation(key("acked-write-lost|Exists"), fmt.Sprintf("object %d whose write returned success: Exists=%v,%v", i, ex, eerr), desc)
				}
			}
			// iteration: only objects, each at most once, with their own bytes; every demanded object listed
			seen := map[oid.Address]int{}
			iterErrs := map[oid.Address]error{}
			err := fst.Iterate(func(a oid.Address, data []byte) error {
				seen[a]++
				i, ok := byAddr[a]
				if !ok {
					r.Violation(key("iterate-foreign-address"), fmt.Sprintf("Iterate yields %s which was never written", a), desc)
					return nil
				}
				if !bytes.Equal(data, datas[i]) {
					r.Violation(key("wrong-bytes|Iterate|status="+stName[status[i]]), fmt.Sprintf("Iterate yields object %d with %d different bytes (want %d)", i, len(data), len(datas[i])), desc)
				}
				return nil
			}, func(a oid.Address, err error) error {
				iterErrs[a] = err
				return nil
			})
			if err != nil {
				r.Violation(key("iterate-failed"), fmt.Sprintf("Iterate fails after the crash: %v", err), desc)
			}
			listed := map[oid.Address]int{}
			err = fst.IterateAddresses(func(a oid.Address) error {
				listed[a]++
				if _, ok := byAddr[a]; !ok {
					r.Violation(key("iterate-addresses-foreign"), fmt.Sprintf("IterateAddresses yields %s which was never written", a), desc)
				}
				return nil
			}, false)
			if err != nil {
				r.Violation(key("iterate-addresses-failed"), fmt.Sprintf("IterateAddresses fails after the crash: %v", err), desc)
			}
			sized := map[oid.Address]int{}
			err = fst.IterateSizes(func(a oid.Address, _ uint64) error {
				sized[a]++
				if _, ok := byAddr[a]; !ok {
					r.Violation(key("iterate-sizes-foreign"), fmt.Sprintf("IterateSizes yields %s which was never written", a), desc)
				}
				return nil
			}, false)
			if err != nil {
				r.Violation(key("iterate-sizes-failed"), fmt.Sprintf("IterateSizes fails after the crash: %v", err), desc)
			}
			for i := 0; i < n; i++ {
				a := addrs[i]
				if seen[a] > 1 || listed[a] > 1 || sized[a] > 1 {
					r.Violation(key("iterate-duplicate"), fmt.Sprintf("object %d listed more than once (%d/%d/%d)", i, seen[a], listed[a], sized[a]), desc)
				}
				if status[i] == vf12Present && (seen[a] != 1 || listed[a] != 1 || sized[a] != 1) {
					r.Violation(key("acked-write-lost|Iterate"), fmt.Sprintf("object %d whose write returned success is not iterated (%d/%d/%d, err %v)", i, seen[a], listed[a], sized[a], iterErrs[a]), desc)
				}
				// what iteration presents as an object must be an object for reads too (a listed name that
				// cannot be read is a leftover temporary / half-made file showing up)
				if seen[a]+listed[a]+sized[a] > 0 {
					if got, err := fst.GetBytes(a); err != nil || !bytes.Equal(got, datas[i]) {
						r.Violation(key("listed-but-not-an-object|status="+stName[status[i]]), fmt.Sprintf("object %d is listed by iteration (%d/%d/%d) but GetBytes gives err=%v", i, seen[a], listed[a], sized[a], err), desc)
					}
				}
				if status[i] == vf12Never && (seen[a] != 0 || listed[a] != 0) {
					r.Violation(key("iterate-never-written"), fmt.Sprintf("object %d whose write never started is iterated", i), desc)
				}
			}
			r.Count("objects_checked", n)
			r.Count("iterated_objects", len(seen))
		})
		if pass == 1 {
			// retry what was in flight (existing links / leftover temp files must be tolerated): a write that
			// now returns success must be readable as well
			r.Guard(desc, func() {
				for i := 0; i < n; i++ {
					if status[i] != vf12Maybe {
						continue
					}
					if err := fst.Put(addrs[i], datas[i]); err != nil {
						r.Count("retry_put_errors", 1)
						r.Seen("retry_put_error_shapes", vf12ErrShape(err))
						continue
					}
					r.Count("retry_put_ok", 1)
					got, err := fst.GetBytes(addrs[i])
					if err != nil || !bytes.Equal(got, datas[i]) {
						r.Violation(key("retry-put-not-readable"), fmt.Sprintf("retried write of object %d returned success but read gives err=%v equal=%v", i, err, bytes.Equal(got, datas[i])), desc)
					}
				}
			})
		}
		r.Guard(desc, func() { _ = fst.Close() })
	}
}

func vf12Atoi(s string) int { v, _ := strconv.Atoi(s); return v }

func vf12Common(a, b []byte) int {
	i := 0
	for i < len(a) && i < len(b) && a[i] == b[i] {
		i++
	}
	return i
}

// vf12ErrShape strips paths and numbers from an error text.
func vf12ErrShape(err error) string {
	s := err.Error()
	var sb strings.Builder
	inq := false
	for _, c := range s {
		switch {
		case c == '"':
			inq = !inq
			if inq {
				sb.WriteString("\"…\"")
			}
		case inq:
		case c >= '0' && c <= '9':
		default:
			sb.WriteRune(c)
		}
	}
	out := sb.String()
	if len(out) > 120 {
		out = out[:120]
	}
	return out
}
