//go:build verif

package fstree

// C12 – a crash during a blob write never exposes partial or wrong object bytes.
//
// Crash runner (process-crash model): for every generated script the parent first runs a
// dry child that counts how often every instrumentation point of the FSTree writers
// (internal/verifhook, "fstree.*.before/after" around each syscall) is passed.  Then one
// child process per (point, k-th hit) replays the script on a fresh directory and
// SIGKILLs itself exactly there.  Every operation is journalled (O_APPEND|O_SYNC) before
// it starts and after it returned, so the parent knows which writes were acknowledged.
// The parent reopens the directory with a new FSTree and judges what it can read with an
// oracle written from the property statement only.  After that the workload goes on: on the
// directory as the crash left it (leftover temporary files included) the parent – or, for a
// seeded subset, a second child that crashes as well – writes everything that was in flight
// again, deletes, re-puts; writes acknowledged now are demanded like those acknowledged
// before the crash, at every later stage (continue, reopen, CleanUpTmp, continue).

import (
	"bytes"
	"encoding/json"
	"errors"
	"fmt"
	"io"
	"math/rand/v2"
	"os"
	"path/filepath"
	"sort"
	"strconv"
	"strings"
	"sync"
	"syscall"
	"testing"
	"time"

	"github.com/nspcc-dev/neofs-node/internal/verifhook"
	"github.com/nspcc-dev/neofs-node/internal/verifkit"
	"github.com/nspcc-dev/neofs-node/pkg/local_object_storage/blobstor/common"
	apistatus "github.com/nspcc-dev/neofs-sdk-go/client/status"
	"github.com/nspcc-dev/neofs-sdk-go/object"
	oid "github.com/nspcc-dev/neofs-sdk-go/object/id"
)

type vf12Cfg struct {
	Generic    bool   `json:"generic"`
	Depth      uint64 `json:"depth"`
	NoSync     bool   `json:"nosync"`
	CountLimit int    `json:"count_limit"`
	SizeLimit  int    `json:"size_limit"`
	Threshold  int    `json:"threshold"`
	IntervalMs int    `json:"interval_ms"`
}

type vf12Obj struct {
	SeedA   uint64 `json:"a"`
	SeedB   uint64 `json:"b"`
	Payload int    `json:"payload"`
}

// vf12Op: Kind is "put" (one object), "batch" (PutBatch of 1–8), "cput" (concurrent Puts,
// the way the combined writer gets multi-object batches) or "del".
type vf12Op struct {
	Kind string `json:"kind"`
	Objs []int  `json:"objs"`
}

type vf12Spec struct {
	Dir     string    `json:"dir"`
	Journal string    `json:"journal"`
	Cfg     vf12Cfg   `json:"cfg"`
	Objs    []vf12Obj `json:"objs"`
	Ops     []vf12Op  `json:"ops"`
	Point   string    `json:"point,omitempty"` // crash point ("" = dry run)
	K       int       `json:"k,omitempty"`
	// OpBase is the journal index of Ops[0]: a later generation (the workload continued on the directory
	// an earlier child crashed in) appends to the same journal and numbers its operations after the earlier ones.
	OpBase int `json:"op_base,omitempty"`
}

const vf12OpReturned = "harness.op.returned" // crash point "after the last syscall of an op, before its acknowledgement"

func vf12Open(dir string, c vf12Cfg) (*FSTree, error) {
	t := New(WithPath(dir), WithDepth(c.Depth), WithPerm(0o700), WithNoSync(c.NoSync),
		WithCombinedCountLimit(c.CountLimit), WithCombinedSizeLimit(c.SizeLimit),
		WithCombinedSizeThreshold(c.Threshold), WithCombinedWriteInterval(time.Duration(c.IntervalMs)*time.Millisecond))
	if err := t.Open(false); err != nil {
		return nil, err
	}
	if err := t.Init(common.ID{}); err != nil {
		return nil, err
	}
	if c.Generic {
		// the portable temp-file+rename writer (what Init leaves in place where O_TMPFILE is unsupported)
		t.writer = newGenericWriter(t.Permissions, t.noSync)
	}
	return t, nil
}

func vf12Make(o vf12Obj) (oid.Address, []byte) {
	rng := rand.New(rand.NewPCG(o.SeedA, o.SeedB))
	obj := verifkit.NewObject(rng, verifkit.RandCID(rng), verifkit.RandUser(rng), o.Payload)
	return verifkit.Addr(obj), obj.Marshal()
}

// ---------------------------------------------------------------- child

// vf12Journal is the acknowledgement log of a crash child: one write(2) per line on an
// O_APPEND descriptor.  In the process-crash model of the property a completed write(2)
// survives the SIGKILL, so no fsync is needed (and none is wanted: hundreds of children).
type vf12Journal struct {
	mu sync.Mutex
	f  *os.File
}

func vf12OpenJournal(path string) (*vf12Journal, error) {
	f, err := os.OpenFile(path, os.O_CREATE|os.O_WRONLY|os.O_APPEND, 0o644)
	if err != nil {
		return nil, err
	}
	return &vf12Journal{f: f}, nil
}

func (j *vf12Journal) Append(line string) {
	j.mu.Lock()
	defer j.mu.Unlock()
	_, _ = j.f.WriteString(strings.ReplaceAll(line, "\n", " ") + "\n")
}

func (j *vf12Journal) Close() { _ = j.f.Close() }

func vf12Child(t *testing.T, specPath string) {
	b, err := os.ReadFile(specPath)
	if err != nil {
		t.Fatalf("child: read spec: %v", err)
	}
	var sp vf12Spec
	if err := json.Unmarshal(b, &sp); err != nil {
		t.Fatalf("child: spec: %v", err)
	}
	j, err := vf12OpenJournal(sp.Journal)
	if err != nil {
		t.Fatalf("child: journal: %v", err)
	}
	fst, err := vf12Open(sp.Dir, sp.Cfg)
	if err != nil {
		j.Append("FATAL open: " + err.Error())
		t.Fatalf("child: open: %v", err)
	}
	if _, isLinux := fst.writer.(*linuxWriter); !sp.Cfg.Generic && !isLinux {
		j.Append("FATAL no-linux-writer")
		t.Fatalf("child: O_TMPFILE writer unavailable")
	}
	addrs := make([]oid.Address, len(sp.Objs))
	datas := make([][]byte, len(sp.Objs))
	for i, o := range sp.Objs {
		addrs[i], datas[i] = vf12Make(o)
	}
	h := verifkit.InstallHooks()
	if sp.Point != "" {
		h.CrashAt(sp.Point, sp.K)
	}
	vf12Exec(fst, sp.Ops, sp.OpBase, addrs, datas, j)
	cnt, _ := json.Marshal(h.Counts())
	j.Append("COUNTS " + string(cnt))
	if err := fst.Close(); err != nil {
		j.Append("E close " + err.Error())
	}
	j.Append("DONE")
	h.Uninstall()
	j.Close()
}

// vf12Log receives the operation journal: the O_APPEND file of a crash child, or memory when the
// parent itself continues the workload on a recovered directory.
type vf12Log interface{ Append(line string) }

type vf12MemLog struct {
	mu    sync.Mutex
	lines []string
}

func (m *vf12MemLog) Append(line string) {
	m.mu.Lock()
	m.lines = append(m.lines, line)
	m.mu.Unlock()
}

// vf12Exec runs operations on fst and journals start and outcome of each of them.
func vf12Exec(fst *FSTree, ops []vf12Op, base int, addrs []oid.Address, datas [][]byte, j vf12Log) {
	for i, op := range ops {
		i += base
		switch op.Kind {
		case "put":
			o := op.Objs[0]
			j.Append(fmt.Sprintf("S put %d %d", i, o))
			err := fst.Put(addrs[o], datas[o])
			verifhook.Point(vf12OpReturned)
			vf12Ack(j, "put", i, o, err)
		case "del":
			o := op.Objs[0]
			j.Append(fmt.Sprintf("S del %d %d", i, o))
			err := fst.Delete(addrs[o])
			verifhook.Point(vf12OpReturned)
			vf12Ack(j, "del", i, o, err)
		case "batch":
			m := map[oid.Address][]byte{}
			for _, o := range op.Objs {
				j.Append(fmt.Sprintf("S put %d %d", i, o))
				m[addrs[o]] = datas[o]
			}
			err := fst.PutBatch(m)
			verifhook.Point(vf12OpReturned)
			for _, o := range op.Objs {
				vf12Ack(j, "put", i, o, err)
			}
		case "cput":
			var wg sync.WaitGroup
			for _, o := range op.Objs {
				j.Append(fmt.Sprintf("S put %d %d", i, o))
			}
			for _, o := range op.Objs {
				wg.Add(1)
				go func() {
					defer wg.Done()
					err := fst.Put(addrs[o], datas[o])
					verifhook.Point(vf12OpReturned)
					vf12Ack(j, "put", i, o, err)
				}()
			}
			wg.Wait()
		}
	}
}

func vf12Ack(j vf12Log, kind string, op, o int, err error) {
	if err == nil {
		j.Append(fmt.Sprintf("A %s %d %d", kind, op, o))
		return
	}
	nf := 0
	if errors.Is(err, apistatus.ErrObjectNotFound) {
		nf = 1
	}
	j.Append(fmt.Sprintf("E %s %d %d %d %s", kind, op, o, nf, err.Error()))
}

// ---------------------------------------------------------------- parent

// object status derived from the journal (what the statement lets us demand)
const (
	vf12Never   = iota // no write ever started
	vf12Maybe          // a write started but was never acknowledged, or a deletion started: present or absent, both fine
	vf12Present        // a write returned success and no deletion started since: MUST be readable, identical bytes
	vf12Deleted        // a deletion returned success (the statement does not constrain it further)
)

type vf12Gen struct {
	cfg  vf12Cfg
	objs []vf12Obj
	ops  []vf12Op
}

func vf12Generate(rng *rand.Rand, idx int) vf12Gen {
	var g vf12Gen
	c := &g.cfg
	c.Generic = idx%3 == 2
	c.Depth = uint64(rng.IntN(3))
	c.NoSync = rng.IntN(3) == 0
	c.Threshold = []int{600, 1500, 4096}[rng.IntN(3)]
	c.CountLimit = []int{1, 2, 3, 4, 8, 128}[rng.IntN(6)]
	c.SizeLimit = []int{500, 2000, 6000, 1 << 20}[rng.IntN(4)]
	c.IntervalMs = 1 + rng.IntN(5)
	nObj := 3 + rng.IntN(8)
	for i := 0; i < nObj; i++ {
		var pl int
		switch rng.IntN(6) {
		case 0:
			pl = rng.IntN(40) // tiny
		case 1, 2:
			pl = 50 + rng.IntN(400) // small: combined
		case 3:
			pl = c.Threshold - 260 + rng.IntN(120) // marshalled size around the combined threshold
			if pl < 0 {
				pl = 0
			}
		case 4:
			pl = c.Threshold + 1 + rng.IntN(3000) // single file
		default:
			pl = 20000 + rng.IntN(150000) // big single file
		}
		g.objs = append(g.objs, vf12Obj{SeedA: rng.Uint64(), SeedB: rng.Uint64(), Payload: pl})
	}
	nOps := 5 + rng.IntN(3)
	written := []int{}
	pickN := func(n int) []int {
		p := rng.Perm(nObj)
		if n > nObj {
			n = nObj
		}
		return p[:n]
	}
	must := []int{0, 3, 5, 7, 9} // put, batch, cput (linux only), del, re-put: every script has each kind once
	rng.Shuffle(len(must), func(a, b int) { must[a], must[b] = must[b], must[a] })
	if must[0] == 7 { // a deletion needs something written before it
		must[0], must[len(must)-1] = must[len(must)-1], must[0]
	}
	if nOps < len(must) {
		nOps = len(must)
	}
	for i := 0; i < nOps; i++ {
		k := rng.IntN(10)
		if i < len(must) {
			k = must[i]
		}
		switch {
		case k < 3:
			o := rng.IntN(nObj)
			g.ops = append(g.ops, vf12Op{Kind: "put", Objs: []int{o}})
			written = append(written, o)
		case k < 5:
			os := pickN(1 + rng.IntN(8))
			g.ops = append(g.ops, vf12Op{Kind: "batch", Objs: os})
			written = append(written, os...)
		case k < 7 && !c.Generic:
			os := pickN(2 + rng.IntN(7))
			g.ops = append(g.ops, vf12Op{Kind: "cput", Objs: os})
			written = append(written, os...)
		case k < 9 && len(written) > 0:
			g.ops = append(g.ops, vf12Op{Kind: "del", Objs: []int{written[rng.IntN(len(written))]}})
		default:
			// re-put of something already written (existing link / existing file must be tolerated)
			o := rng.IntN(nObj)
			if len(written) > 0 {
				o = written[rng.IntN(len(written))]
			}
			g.ops = append(g.ops, vf12Op{Kind: "put", Objs: []int{o}})
			written = append(written, o)
		}
	}
	return g
}

// vf12Continuation is the workload that goes on after a recovery, on the directory exactly as the
// crash left it (nobody is obliged to run CleanUpTmp first): whatever was in flight is requested again
// (one by one, as PutBatch of mixed sizes padded with other objects, or concurrently), a stored object
// may be deleted and stored again, stored objects are re-put, a mixed batch is written.  It is a
// function of the object statuses only (which writes were acknowledged), never of the files on disk.
func vf12Continuation(rng *rand.Rand, g vf12Gen, status []int) []vf12Op {
	n := len(g.objs)
	var maybes, written []int
	for i, s := range status {
		if s == vf12Maybe {
			maybes = append(maybes, i)
		}
		if s != vf12Never {
			written = append(written, i)
		}
	}
	var ops []vf12Op
	if len(maybes) > 0 {
		rng.Shuffle(len(maybes), func(a, b int) { maybes[a], maybes[b] = maybes[b], maybes[a] })
		mode := rng.IntN(3)
		if mode == 2 && (g.cfg.Generic || len(maybes) < 2) {
			mode = rng.IntN(2)
		}
		switch mode {
		case 0:
			for _, o := range maybes {
				ops = append(ops, vf12Op{Kind: "put", Objs: []int{o}})
			}
		case 1:
			for len(maybes) > 0 {
				m := min(len(maybes), 8)
				objs := append([]int{}, maybes[:m]...)
				maybes = maybes[m:]
				if pad := rng.IntN(4); pad > 0 && len(objs) < 8 { // other objects of other sizes in the same batch
					in := map[int]bool{}
					for _, o := range objs {
						in[o] = true
					}
					for _, o := range rng.Perm(n) {
						if pad == 0 || len(objs) == 8 {
							break
						}
						if !in[o] {
							objs = append(objs, o)
							pad--
						}
					}
					rng.Shuffle(len(objs), func(a, b int) { objs[a], objs[b] = objs[b], objs[a] })
				}
				ops = append(ops, vf12Op{Kind: "batch", Objs: objs})
			}
		default:
			m := min(len(maybes), 8)
			ops = append(ops, vf12Op{Kind: "cput", Objs: append([]int{}, maybes[:m]...)})
			for _, o := range maybes[m:] {
				ops = append(ops, vf12Op{Kind: "put", Objs: []int{o}})
			}
		}
	}
	if len(written) > 0 && rng.IntN(3) == 0 {
		o := written[rng.IntN(len(written))]
		ops = append(ops, vf12Op{Kind: "del", Objs: []int{o}}, vf12Op{Kind: "put", Objs: []int{o}})
	}
	if rng.IntN(2) == 0 {
		o := rng.IntN(n)
		if len(written) > 0 && rng.IntN(3) > 0 {
			o = written[rng.IntN(len(written))]
		}
		ops = append(ops, vf12Op{Kind: "put", Objs: []int{o}})
	}
	if rng.IntN(2) == 0 {
		ops = append(ops, vf12Op{Kind: "batch", Objs: rng.Perm(n)[:min(n, 1+rng.IntN(8))]})
	}
	return ops
}

type vf12Job struct {
	caseIdx int
	gen     vf12Gen
	point   string
	k       int
	// second generation: the continuation of the workload on the recovered directory runs in a child
	// too and stops at the k2-th hit of point2 (stacked leftovers of two crashes)
	point2 string
	k2     int
}

func TestVerif_C12(t *testing.T) {
	if spec, ok := verifkit.ChildSpec(); ok {
		vf12Child(t, spec)
		return
	}
	r := verifkit.Start(t, "C12", "fault_enumeration")
	defer r.Finish()
	if !verifhook.Enabled {
		r.Inconclusive("verifhook not compiled in")
		return
	}
	nCases := r.Pick(6, 70)
	r.SetRule("per seeded script (config: linux O_TMPFILE/combined or generic writer, depth 0-2, count/size limits, sync on/off; 3-7 ops of Put / PutBatch(1-8) / concurrent Puts(2-8) / Delete / re-Put over 3-10 objects of mixed sizes) every (instrumentation point, k-th hit) seen in a dry run is a crash case: a child SIGKILLs itself there, the parent reopens and checks all reads, then continues the workload on the directory as the crash left it (re-Put of everything in flight by Put / PutBatch / concurrent Puts, delete+re-Put, re-Put of stored objects, mixed batch), checks, reopens, checks, runs CleanUpTmp, checks, continues again, checks; for a seeded subset the continuation itself runs in a second child that crashes at another point; distinct = (script, point, k[, point2, k2]) whose child really died at the point")
	r.Assume("process-crash model: bytes handed to the kernel survive; power loss / torn sectors not modelled")
	r.Assume("crash points are the syscall boundaries instrumented by hook commit H2; a crash inside a syscall is not modelled")
	scratch := os.Getenv("VERIF_SCRATCH")
	if scratch == "" {
		scratch = t.TempDir()
	}
	root, err := os.MkdirTemp(scratch, "c12-")
	if err != nil {
		t.Fatal(err)
	}
	defer os.RemoveAll(root)

	var jobs []vf12Job
	enumerated := 0
	generic := 0
	for ci := 0; ci < nCases; ci++ {
		g := vf12Generate(r.Rand("script", ci), ci)
		// dry run in a child: count the points
		dry := fmt.Sprintf("dry-%d", ci)
		res, jl := vf12Run(root, dry, g, g.ops, 0, "", 0)
		counts := map[string]int{}
		done := false
		for _, l := range jl {
			if strings.HasPrefix(l, "COUNTS ") {
				_ = json.Unmarshal([]byte(l[7:]), &counts)
			}
			if l == "DONE" {
				done = true
			}
			if f := strings.Fields(l); f[0] == "E" && !(len(f) >= 5 && f[1] == "del" && f[4] == "1") {
				r.Count("dry_run_unexpected_errors", 1)
				r.Inconclusive("operation failed on a healthy file system in dry run: " + l)
			}
		}
		if !done || res.ExitCode != 0 || res.Signaled {
			r.Inconclusive(fmt.Sprintf("dry run of script %d did not finish: exit=%d signaled=%v timeout=%v out=%s", ci, res.ExitCode, res.Signaled, res.TimedOut, vf12Tail(res.Output)))
			continue
		}
		// the dry run itself is a (crash-free) case
		vf12Check(r, root, dry, vf12Job{caseIdx: ci, gen: g}, jl, false)
		os.RemoveAll(filepath.Join(root, dry))
		names := make([]string, 0, len(counts))
		for n := range counts {
			names = append(names, n)
		}
		sort.Strings(names)
		first := len(jobs)
		var pts []string
		for _, n := range names {
			if !r.Thorough() && strings.HasSuffix(n, ".after") {
				// quick tier: an ".after" point has the same on-disk state as the next ".before"/op-returned point
				r.Count("points_skipped_in_quick_tier", counts[n])
				continue
			}
			pts = append(pts, n)
			for k := 1; k <= counts[n]; k++ {
				jobs = append(jobs, vf12Job{caseIdx: ci, gen: g, point: n, k: k})
				enumerated++
			}
			r.Count("points_enumerated|"+n, counts[n])
		}
		// a seeded subset of the crash cases gets a second crash during the continuation
		if cnt := len(jobs) - first; cnt > 0 {
			g2 := r.Rand("gen2", ci)
			for x := r.Pick(8, 20); x > 0; x-- {
				jb := &jobs[first+g2.IntN(cnt)]
				p2, k2 := pts[g2.IntN(len(pts))], 1+g2.IntN(3)/2
				if jb.point2 == "" {
					jb.point2, jb.k2 = p2, k2
					r.Count("gen2_cases_enumerated", 1)
				}
			}
		}
		if ci < 3 {
			r.Sample(map[string]any{"script": ci, "cfg": g.cfg, "ops": g.ops, "payloads": vf12Payloads(g), "points": counts})
		}
		wr := "linux"
		if g.cfg.Generic {
			wr = "generic"
			generic++
		}
		r.Count("scripts_"+wr, 1)
	}
	r.Count("crash_cases_enumerated", enumerated)

	// run the crash children, a few at a time
	var wg sync.WaitGroup
	ch := make(chan int)
	var reached, unreached int64
	var mu sync.Mutex
	for w := 0; w < r.Pick(4, 6); w++ {
		wg.Add(1)
		go func() {
			defer wg.Done()
			for ji := range ch {
				jb := jobs[ji]
				name := fmt.Sprintf("c%d-%d", jb.caseIdx, ji)
				res, jl := vf12Run(root, name, jb.gen, jb.gen.ops, 0, jb.point, jb.k)
				r.Eval(1)
				crashed := res.Signaled && res.Signal == syscall.SIGKILL && !res.TimedOut
				finished := false
				for _, l := range jl {
					if l == "DONE" {
						finished = true
					}
				}
				switch {
				case crashed:
					mu.Lock()
					reached++
					mu.Unlock()
					r.Count("points_reached|"+jb.point, 1)
					r.Distinct(fmt.Sprintf("%d|%s|%d", jb.caseIdx, jb.point, jb.k))
				case finished && res.ExitCode == 0:
					// the schedule of this child passed the point fewer times (concurrent puts): a crash-free case
					mu.Lock()
					unreached++
					mu.Unlock()
					r.Count("points_unreached|"+jb.point, 1)
				default:
					r.Inconclusive(fmt.Sprintf("crash child %s (%s#%d) ended unexpectedly: exit=%d signaled=%v timeout=%v out=%s", name, jb.point, jb.k, res.ExitCode, res.Signaled, res.TimedOut, vf12Tail(res.Output)))
					os.RemoveAll(filepath.Join(root, name))
					continue
				}
				vf12Check(r, root, name, jb, jl, crashed)
				os.RemoveAll(filepath.Join(root, name))
			}
		}()
	}
	for ji := range jobs {
		ch <- ji
	}
	close(ch)
	wg.Wait()
	r.Count("crash_cases_child_died_at_point", int(reached))
	r.Count("crash_cases_point_not_reached", int(unreached))
	if enumerated > 0 && unreached == 0 {
		r.SetExhaustive(true) // every enumerated crash point of every script was exercised
	}
	if enumerated > 0 && unreached*5 > int64(enumerated) {
		r.Inconclusive(fmt.Sprintf("%d of %d enumerated crash points were not reached by their child", unreached, enumerated))
	}
	if generic > 0 && reached > 0 && r.Counter("continuation_writes_onto_leftover_temp") == 0 {
		r.Inconclusive("no write of a continued workload ever met a temporary file left by a crash (generic writer scripts were run)")
	}
}

func vf12Payloads(g vf12Gen) []int {
	p := make([]int, len(g.objs))
	for i, o := range g.objs {
		p[i] = o.Payload
	}
	return p
}

func vf12Tail(s string) string {
	if len(s) > 1500 {
		s = s[len(s)-1500:]
	}
	return s
}

// vf12Run executes ops in a child on directory <root>/<name>/tree (fresh for the first generation, as
// the previous child left it for a later one) and returns the whole journal.
func vf12Run(root, name string, g vf12Gen, ops []vf12Op, opBase int, point string, k int) (verifkit.ChildResult, []string) {
	base := filepath.Join(root, name)
	_ = os.MkdirAll(base, 0o755)
	sp := vf12Spec{Dir: filepath.Join(base, "tree"), Journal: filepath.Join(base, "journal"), Cfg: g.cfg, Objs: g.objs, Ops: ops, Point: point, K: k, OpBase: opBase}
	b, _ := json.Marshal(sp)
	specPath := filepath.Join(base, fmt.Sprintf("spec-%d.json", opBase))
	_ = os.WriteFile(specPath, b, 0o644)
	res := verifkit.SpawnChild("TestVerif_C12", specPath, nil, 120*time.Second)
	return res, verifkit.ReadJournal(sp.Journal)
}

// vf12Ctx is one crash case under judgement: the script, everything journalled so far (by the crash
// children and by the parent's own continuation) and the statuses the statement lets us demand.
type vf12Ctx struct {
	r       *verifkit.Run
	g       vf12Gen
	ci      int
	dir     string
	wr      string
	point   string
	k       int
	ops     []vf12Op // script + continuations, indexed by the journal's operation numbers
	journal []string
	status  []int
	addrs   []oid.Address
	datas   [][]byte
	byAddr  map[oid.Address]int
	lost    map[int]bool // objects already reported as lost at an earlier stage of this case (reported once)
	bad     map[int]bool // objects already reported as readable/listed with wrong bytes at an earlier stage
}

var vf12StName = []string{"never", "maybe", "present", "deleted"}

func (c *vf12Ctx) desc() map[string]any {
	return map[string]any{"script": c.ci, "cfg": c.g.cfg, "ops": c.ops, "script_ops": len(c.g.ops), "objs": c.g.objs, "crash_point": c.point, "k": c.k, "journal": append([]string{}, c.journal...)}
}

// derive recomputes the object statuses from the journal and returns the kind of the last started operation.
func (c *vf12Ctx) derive() (inOp string) {
	status := make([]int, len(c.g.objs))
	for _, l := range c.journal {
		f := strings.Fields(l)
		if len(f) < 4 || (f[0] != "S" && f[0] != "A" && f[0] != "E") {
			continue
		}
		o, _ := strconv.Atoi(f[3])
		switch f[0] + f[1] {
		case "Sput":
			if status[o] != vf12Present { // re-put of a stored object: it stays demanded
				status[o] = vf12Maybe
			}
			if oi := vf12Atoi(f[2]); oi < len(c.ops) {
				inOp = c.ops[oi].Kind
			}
		case "Aput":
			status[o] = vf12Present
		case "Eput":
			if status[o] != vf12Present {
				status[o] = vf12Maybe
			}
		case "Sdel":
			if status[o] != vf12Never {
				status[o] = vf12Maybe
			}
			inOp = "del"
		case "Adel":
			status[o] = vf12Deleted
		case "Edel":
			// failed deletion (not found): nothing changes
		}
	}
	c.status = status
	return inOp
}

func (c *vf12Ctx) key(stage, s string) string {
	return fmt.Sprintf("%s|%s|%s|point=%s", s, c.wr, stage, c.point)
}

// stage opens the directory with a fresh FSTree, runs f on it and closes it; false = cannot go on.
func (c *vf12Ctx) stage(stage string, f func(fst *FSTree)) bool {
	var fst *FSTree
	var err error
	if c.r.Guard(c.desc(), func() { fst, err = vf12Open(c.dir, c.g.cfg) }) {
		return false
	}
	if err != nil {
		c.r.Violation(c.key(stage, "reopen-failed"), fmt.Sprintf("storage cannot be reopened after the crash: %v", err), c.desc())
		return false
	}
	c.r.Guard(c.desc(), func() { f(fst) })
	c.r.Guard(c.desc(), func() { _ = fst.Close() })
	return true
}

// leftovers counts the temporary files on disk and tells which objects have one next to their path.
func (c *vf12Ctx) leftovers(fst *FSTree) (files int, objs map[int]bool) {
	objs = map[int]bool{}
	byPath := map[string]int{}
	for i, a := range c.addrs {
		byPath[fst.treePath(a)] = i
	}
	_ = filepath.WalkDir(c.dir, func(p string, d os.DirEntry, err error) error {
		if err == nil && !d.IsDir() && strings.Contains(d.Name(), "#") {
			files++
			if i, ok := byPath[p[:strings.LastIndex(p, "#")]]; ok {
				objs[i] = true
			}
		}
		return nil
	})
	return files, objs
}

// continueWorkload runs a seeded continuation on the open storage in this process, journals it and
// recomputes the statuses: a write that returns success now is as binding as one acknowledged before the crash.
func (c *vf12Ctx) continueWorkload(fst *FSTree, rng *rand.Rand) {
	cont := vf12Continuation(rng, c.g, c.status)
	_, tmp := c.leftovers(fst)
	for _, op := range cont {
		c.r.Count("continuation_ops|"+op.Kind, 1)
		if op.Kind == "del" {
			continue
		}
		for _, o := range op.Objs {
			if tmp[o] {
				c.r.Count("continuation_writes_onto_leftover_temp", 1)
			}
			if c.status[o] == vf12Maybe {
				c.r.Count("continuation_writes_of_in_flight_objects", 1)
			}
		}
	}
	var ml vf12MemLog
	base := len(c.ops)
	c.ops = append(c.ops, cont...)
	vf12Exec(fst, cont, base, c.addrs, c.datas, &ml)
	for _, l := range ml.lines {
		switch f := strings.Fields(l); f[0] + f[1] {
		case "Aput":
			c.r.Count("continuation_put_ok", 1)
		case "Eput":
			c.r.Count("continuation_put_errors", 1)
			if len(f) > 5 {
				c.r.Seen("continuation_put_error_shapes", vf12ErrShape(errors.New(strings.Join(f[5:], " "))))
			}
		}
	}
	c.journal = append(c.journal, ml.lines...)
	c.derive()
}

// vf12Check is the recovery oracle.
func vf12Check(r *verifkit.Run, root, name string, jb vf12Job, journal []string, crashed bool) {
	g := jb.gen
	c := &vf12Ctx{r: r, g: g, ci: jb.caseIdx, dir: filepath.Join(root, name, "tree"), wr: "linux", point: jb.point, k: jb.k,
		ops: append([]vf12Op{}, g.ops...), journal: journal, byAddr: map[oid.Address]int{}, lost: map[int]bool{}, bad: map[int]bool{}}
	if g.cfg.Generic {
		c.wr = "generic"
	}
	n := len(g.objs)
	c.addrs = make([]oid.Address, n)
	c.datas = make([][]byte, n)
	for i, o := range g.objs {
		c.addrs[i], c.datas[i] = vf12Make(o)
		c.byAddr[c.addrs[i]] = i
	}
	inOp := c.derive()
	for _, l := range journal {
		if strings.HasPrefix(l, "E put ") {
			r.Count("child_put_errors", 1)
		}
	}
	if crashed {
		r.Seen("op_kind_running_at_crash", inOp)
	}
	rng := r.Rand(fmt.Sprintf("cont|%s|%d", jb.point, jb.k), jb.caseIdx)

	// 1. the directory as the crash left it
	if !c.stage("reopen", func(fst *FSTree) {
		files, _ := c.leftovers(fst)
		r.Count("leftover_temp_files_found_after_crash", files)
		c.reads(fst, "reopen")
	}) {
		return
	}
	// 2. (subset) the workload goes on in a second child that crashes as well
	if jb.point2 != "" {
		cont := vf12Continuation(rng, g, c.status)
		base := len(c.ops)
		c.ops = append(c.ops, cont...)
		before := len(c.journal)
		res, jl := vf12Run(root, name, g, cont, base, jb.point2, jb.k2)
		r.Eval(1)
		crashed2 := res.Signaled && res.Signal == syscall.SIGKILL && !res.TimedOut
		finished2 := false
		for _, l := range jl[min(before, len(jl)):] {
			if l == "DONE" {
				finished2 = true
			}
			if strings.HasPrefix(l, "FATAL") {
				finished2 = false
				break
			}
		}
		switch {
		case crashed2:
			r.Count("gen2_child_died_at_point", 1)
			r.Count("gen2_points_reached|"+jb.point2, 1)
			r.Distinct(fmt.Sprintf("%d|%s|%d>%s|%d", jb.caseIdx, jb.point, jb.k, jb.point2, jb.k2))
		case finished2 && res.ExitCode == 0:
			r.Count("gen2_point_not_reached", 1) // the continuation was a crash-free run in another process
		default:
			r.Inconclusive(fmt.Sprintf("second-generation child %s (%s#%d > %s#%d) ended unexpectedly: exit=%d signaled=%v timeout=%v out=%s", name, jb.point, jb.k, jb.point2, jb.k2, res.ExitCode, res.Signaled, res.TimedOut, vf12Tail(res.Output)))
			return
		}
		if len(jl) < before {
			r.Inconclusive("journal of " + name + " shrank")
			return
		}
		c.journal = jl
		c.derive()
		if crashed2 {
			c.point = jb.point + ">" + jb.point2
		}
		if !c.stage("reopen", func(fst *FSTree) { c.reads(fst, "reopen") }) {
			return
		}
	}
	// 3. the workload goes on in this process on the directory as it is, leftovers included
	if !c.stage("reopen+continue", func(fst *FSTree) {
		c.continueWorkload(fst, rng)
		c.reads(fst, "reopen+continue")
	}) {
		return
	}
	if !c.stage("reopen+continue+reopen", func(fst *FSTree) { c.reads(fst, "reopen+continue+reopen") }) {
		return
	}
	// 4. garbage removal must take nothing but garbage; then the workload goes on once more
	c.stage("CleanUpTmp", func(fst *FSTree) {
		if err := fst.CleanUpTmp(); err != nil {
			r.Violation(c.key("CleanUpTmp", "cleanuptmp-failed"), fmt.Sprintf("CleanUpTmp failed: %v", err), c.desc())
		}
		c.reads(fst, "CleanUpTmp")
		if files, _ := c.leftovers(fst); files > 0 {
			r.Count("temp_files_surviving_cleanuptmp", files)
		}
		c.continueWorkload(fst, rng)
		c.reads(fst, "CleanUpTmp+continue")
	})
}

// reads judges every read path of the open storage against the current statuses.
func (c *vf12Ctx) reads(fst *FSTree, stage string) {
	r, n, status, addrs, datas, byAddr := c.r, len(c.g.objs), c.status, c.addrs, c.datas, c.byAddr
	stName := vf12StName
	desc := c.desc()
	key := func(s string) string { return c.key(stage, s) }
	r.Count("read_checks|"+stage, 1)
	// demanded = the statement demands the object AND its loss was not reported at an earlier stage already
	demanded := make([]bool, n)
	for i := range demanded {
		demanded[i] = status[i] == vf12Present && !c.lost[i]
	}
	badBefore := map[int]bool{}
	for i := range c.bad {
		badBefore[i] = true
	}
	wrong := func(i int, k, what string) {
		if !badBefore[i] {
			c.bad[i] = true
			r.Violation(key(k), what, desc)
		}
	}
	lose := func(i int, k, what string) {
		c.lost[i] = true
		r.Violation(key(k), what, desc)
	}
	for i := 0; i < n; i++ {
		got, err := fst.GetBytes(addrs[i])
		r.Count("reads_"+stName[status[i]], 1)
		if err == nil {
			r.Count("readable_"+stName[status[i]], 1)
			if !bytes.Equal(got, datas[i]) {
				wrong(i, "wrong-bytes|GetBytes|status="+stName[status[i]], fmt.Sprintf("object %d (%s, %d bytes) readable with %d different bytes (common prefix %d)", i, addrs[i], len(datas[i]), len(got), vf12Common(got, datas[i])))
			}
		} else if demanded[i] {
			lose(i, "acked-write-lost|GetBytes", fmt.Sprintf("object %d (%s) whose write returned success is not readable: %v", i, addrs[i], err))
		} else if !errors.Is(err, apistatus.ErrObjectNotFound) {
			r.Seen("non_notfound_errors_on_unacked", vf12ErrShape(err))
		}
		// the other read paths must agree on "present" objects and never give different bytes
		obj, gerr := fst.Get(addrs[i])
		if gerr == nil {
			if !bytes.Equal(obj.Marshal(), datas[i]) {
				wrong(i, "wrong-bytes|Get|status="+stName[status[i]], fmt.Sprintf("Get of object %d decodes to a different object", i))
			}
		} else if demanded[i] {
			lose(i, "acked-write-lost|Get", fmt.Sprintf("object %d whose write returned success: Get: %v", i, gerr))
		}
		hdr, rd, serr := fst.GetStream(addrs[i])
		if serr == nil {
			pl, rerr := io.ReadAll(rd)
			_ = rd.Close()
			var want object.Object
			_ = want.Unmarshal(datas[i])
			if rerr != nil || !bytes.Equal(pl, want.Payload()) || hdr == nil || hdr.GetID() != want.GetID() || hdr.PayloadSize() != want.PayloadSize() {
				wrong(i, "wrong-bytes|GetStream|status="+stName[status[i]], fmt.Sprintf("GetStream of object %d: payload %d bytes (want %d), read err %v", i, len(pl), len(want.Payload()), rerr))
			}
		} else if demanded[i] {
			lose(i, "acked-write-lost|GetStream", fmt.Sprintf("object %d whose write returned success: GetStream: %v", i, serr))
		}
		if hd, herr := fst.Head(addrs[i]); herr == nil {
			var want object.Object
			_ = want.Unmarshal(datas[i])
			if hd.GetID() != want.GetID() || hd.PayloadSize() != want.PayloadSize() || hd.GetContainerID() != want.GetContainerID() {
				wrong(i, "wrong-bytes|Head|status="+stName[status[i]], fmt.Sprintf("Head of object %d returns a different header", i))
			}
		} else if demanded[i] {
			lose(i, "acked-write-lost|Head", fmt.Sprintf("object %d whose write returned success: Head: %v", i, herr))
		}
		if ex, eerr := fst.Exists(addrs[i]); demanded[i] && (eerr != nil || !ex) {
			lose(i, "acked-write-lost|Exists", fmt.Sprintf("object %d whose write returned success: Exists=%v,%v", i, ex, eerr))
		}
	}
	// iteration: only objects, each at most once, with their own bytes; every demanded object listed
	seen := map[oid.Address]int{}
	iterErrs := map[oid.Address]error{}
	err := fst.Iterate(func(a oid.Address, data []byte) error {
		seen[a]++
		i, ok := byAddr[a]
		if !ok {
			r.Violation(key("iterate-foreign-address"), fmt.Sprintf("Iterate yields %s which was never written", a), desc)
			return nil
		}
		if !bytes.Equal(data, datas[i]) {
			wrong(i, "wrong-bytes|Iterate|status="+stName[status[i]], fmt.Sprintf("Iterate yields object %d with %d different bytes (want %d)", i, len(data), len(datas[i])))
		}
		return nil
	}, func(a oid.Address, err error) error {
		iterErrs[a] = err
		return nil
	})
	if err != nil {
		r.Violation(key("iterate-failed"), fmt.Sprintf("Iterate fails after the crash: %v", err), desc)
	}
	listed := map[oid.Address]int{}
	err = fst.IterateAddresses(func(a oid.Address) error {
		listed[a]++
		if _, ok := byAddr[a]; !ok {
			r.Violation(key("iterate-addresses-foreign"), fmt.Sprintf("IterateAddresses yields %s which was never written", a), desc)
		}
		return nil
	}, false)
	if err != nil {
		r.Violation(key("iterate-addresses-failed"), fmt.Sprintf("IterateAddresses fails after the crash: %v", err), desc)
	}
	sized := map[oid.Address]int{}
	err = fst.IterateSizes(func(a oid.Address, _ uint64) error {
		sized[a]++
		if _, ok := byAddr[a]; !ok {
			r.Violation(key("iterate-sizes-foreign"), fmt.Sprintf("IterateSizes yields %s which was never written", a), desc)
		}
		return nil
	}, false)
	if err != nil {
		r.Violation(key("iterate-sizes-failed"), fmt.Sprintf("IterateSizes fails after the crash: %v", err), desc)
	}
	for i := 0; i < n; i++ {
		a := addrs[i]
		if seen[a] > 1 || listed[a] > 1 || sized[a] > 1 {
			r.Violation(key("iterate-duplicate"), fmt.Sprintf("object %d listed more than once (%d/%d/%d)", i, seen[a], listed[a], sized[a]), desc)
		}
		if demanded[i] && (seen[a] != 1 || listed[a] != 1 || sized[a] != 1) {
			lose(i, "acked-write-lost|Iterate", fmt.Sprintf("object %d whose write returned success is not iterated (%d/%d/%d, err %v)", i, seen[a], listed[a], sized[a], iterErrs[a]))
		}
		// what iteration presents as an object must be an object for reads too (a listed name that
		// cannot be read is a leftover temporary / half-made file showing up)
		if seen[a]+listed[a]+sized[a] > 0 {
			if got, err := fst.GetBytes(a); err != nil || !bytes.Equal(got, datas[i]) {
				wrong(i, "listed-but-not-an-object|status="+stName[status[i]], fmt.Sprintf("object %d is listed by iteration (%d/%d/%d) but GetBytes gives err=%v", i, seen[a], listed[a], sized[a], err))
			}
		}
		if status[i] == vf12Never && (seen[a] != 0 || listed[a] != 0) {
			r.Violation(key("iterate-never-written"), fmt.Sprintf("object %d whose write never started is iterated", i), desc)
		}
	}
	r.Count("objects_checked", n)
	r.Count("iterated_objects", len(seen))
}

func vf12Atoi(s string) int { v, _ := strconv.Atoi(s); return v }

func vf12Common(a, b []byte) int {
	i := 0
	for i < len(a) && i < len(b) && a[i] == b[i] {
		i++
	}
	return i
}

// vf12ErrShape strips paths and numbers from an error text.
func vf12ErrShape(err error) string {
	s := err.Error()
	var sb strings.Builder
	inq := false
	for _, c := range s {
		switch {
		case c == '"':
			inq = !inq
			if inq {
				sb.WriteString("\"…\"")
			}
		case inq:
		case c >= '0' && c <= '9':
		default:
			sb.WriteRune(c)
		}
	}
	out := sb.String()
	if len(out) > 120 {
		out = out[:120]
	}
	return out
}
