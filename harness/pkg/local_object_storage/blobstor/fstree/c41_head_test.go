//go:build verif

package fstree

// C41, FSTree part: the header paths of head.go (Head, GetStream, ReadHeader, ReadObject,
// ReadObjectParts, GetRangeStream) on files whose content is a generated valid object, a
// truncated / mutated / random byte string, stored plain, inside a combined file (with a
// correct or damaged member prefix), zstd-compressed, or as a damaged zstd stream.  They
// must agree with full decoding for valid content and must never panic.  Inputs are run in
// child processes that record each file on disk before it is read.

import (
	"bytes"
	"encoding/binary"
	"encoding/json"
	"fmt"
	"io"
	"math/rand/v2"
	"os"
	"strings"
	"testing"
	"time"

	"github.com/klauspost/compress/zstd"
	"github.com/nspcc-dev/neofs-node/internal/verifkit"
	"github.com/nspcc-dev/neofs-node/internal/vf41"
	"github.com/nspcc-dev/neofs-node/pkg/local_object_storage/blobstor/common"
	"github.com/nspcc-dev/neofs-sdk-go/object"
	oid "github.com/nspcc-dev/neofs-sdk-go/object/id"
)

func vf41Drain(rd io.Reader) {
	buf := make([]byte, 32<<10)
	total := 0
	for i := 0; i < 4096 && total < 8<<20; i++ {
		n, err := rd.Read(buf)
		total += n
		if err != nil {
			return
		}
	}
}

// vf41File builds the file content for object bytes x and names the wrapping.
func vf41File(rng *rand.Rand, id oid.ID, x []byte) ([]byte, string, bool) {
	member := func(mid oid.ID, data []byte, l uint32) []byte {
		var pref [combinedDataOff]byte
		pref[0] = combinedPrefix
		copy(pref[combinedIDOff:], mid[:])
		binary.BigEndian.PutUint32(pref[combinedLengthOff:], l)
		return append(pref[:], data...)
	}
	other := func() []byte {
		d := verifkit.RandBytes(rng, 1+rng.IntN(200))
		if rng.IntN(3) == 0 {
			d = verifkit.RandBytes(rng, vf41NPFBL-40+rng.IntN(80))
		}
		return member(verifkit.RandOID(rng), d, uint32(len(d)))
	}
	switch w := rng.IntN(100); {
	case w < 30:
		return x, "plain", true
	case w < 50: // well-formed combined file, the object somewhere inside
		var f []byte
		for n := rng.IntN(3); n > 0; n-- {
			f = append(f, other()...)
		}
		f = append(f, member(id, x, uint32(len(x)))...)
		for n := rng.IntN(3); n > 0; n-- {
			f = append(f, other()...)
		}
		if len(x) == 0 { // a member of length 0 is never written
			return f, "combined-damaged:len=0", false
		}
		return f, "combined", true
	case w < 70: // combined file with a damaged prefix of the wanted member
		l := uint32(len(x))
		what := ""
		mid := id
		switch rng.IntN(6) {
		case 0:
			l, what = 0, "len=0"
		case 1:
			l, what = 1, "len=1"
		case 2:
			l, what = l+uint32(rng.IntN(5))-2, "len+-2"
			if l == 0 {
				what = "len=0"
			}
		case 3:
			l, what = []uint32{1 << 20, 1 << 26, 1<<31 - 1, 1 << 31, 1<<32 - 1}[rng.IntN(5)], "len=huge"
		case 4:
			mid[rng.IntN(len(mid))] ^= 1
			what = "other-oid"
		default:
			what = "version"
		}
		var f []byte
		for n := rng.IntN(2); n > 0; n-- {
			f = append(f, other()...)
		}
		m := member(mid, x, l)
		if what == "version" {
			m[1] = byte(1 + rng.IntN(255))
		}
		prefEnd := len(f) + combinedDataOff
		f = append(f, m...)
		if rng.IntN(2) == 0 {
			f = append(f, other()...)
		}
		if rng.IntN(4) == 0 && len(f) > 0 {
			f = f[:rng.IntN(len(f)+1)]
			if len(f) < prefEnd {
				what = "member-prefix-cut-away"
			} else {
				what += ",truncated-file"
			}
		}
		return f, "combined-damaged:" + what, false
	case w < 85:
		return vf41Enc.EncodeAll(x, nil), "zstd", true
	default: // damaged zstd stream (frame header left intact so that the declared sizes stay sane)
		z := vf41Enc.EncodeAll(x, nil)
		if len(z) > 20 {
			for n := 1 + rng.IntN(3); n > 0; n-- {
				i := 16 + rng.IntN(len(z)-16)
				z[i] ^= 1 << uint(rng.IntN(8))
			}
		}
		if rng.IntN(3) == 0 {
			z = z[:rng.IntN(len(z)+1)]
		}
		return z, "zstd-damaged", false
	}
}

const vf41NPFBL = 20 << 10

var vf41Enc, _ = zstd.NewWriter(nil)

func vf41Child(t *testing.T, specJSON string) {
	var spec vf41.Spec
	if err := json.Unmarshal([]byte(specJSON), &spec); err != nil {
		t.Fatal(err)
	}
	r := verifkit.Start(t, "C41", "exploration") // only for the seeded RNG streams
	c, err := vf41.NewCollector(spec.Cur)
	if err != nil {
		t.Fatal(err)
	}
	fs := New(WithPath(t.TempDir()), WithDepth(0), WithNoSync(true))
	if err := fs.Open(false); err != nil {
		t.Fatal(err)
	}
	if err := fs.Init(common.ID{}); err != nil {
		t.Fatal(err)
	}
	var pool [][]byte
	for i := 0; i < spec.N; i++ {
		rng := r.Rand(fmt.Sprintf("fsbatch-%d", spec.Batch), i)
		var x []byte
		kind := ""
		switch sel := rng.IntN(100); {
		case i < 24: // header as long as allowed, total size below and above the 20K read-ahead
			x = vf41.MaxHeaderObject(rng, []int{200, 3500, 60000}[i%3]).Marshal()
			kind = "valid"
			c.Count("maximal_header_objects", 1)
		case sel < 30 || len(pool) == 0:
			x = vf41.Object(rng).Marshal()
			if len(pool) < 32 {
				pool = append(pool, x)
			} else {
				pool[rng.IntN(len(pool))] = x
			}
			kind = "valid"
		case sel < 40:
			b := pool[rng.IntN(len(pool))]
			x, kind = b[:rng.IntN(len(b)+1)], "truncated"
		case sel < 88:
			x, _ = vf41.Mutate(rng, pool[rng.IntN(len(pool))])
			kind = "mutated"
		default:
			x, kind = vf41.RandomBytes(rng), "random"
		}
		addr := oid.NewAddress(verifkit.RandCID(rng), verifkit.RandOID(rng))
		file, wrap, intact := vf41File(rng, addr.Object(), x)
		kind = kind + "/" + wrap
		c.Begin(kind, file)
		c.Count("files_"+wrap[:min(len(wrap), 16)], 1)
		p := fs.treePath(addr)
		if err := os.WriteFile(p, file, 0o600); err != nil {
			t.Fatal(err)
		}

		// reference: full decoding of the object bytes
		var full object.Object
		fullOK := false
		func() {
			defer func() { _ = recover() }()
			fullOK = full.Unmarshal(x) == nil && len(x) > 0 && bytes.Equal(full.Marshal(), x)
		}()
		mustAgree := fullOK && intact && kind[:5] == "valid"
		var wantHdr, wantHdrField []byte
		if mustAgree {
			wantHdr = full.CutPayload().Marshal()
			if hm := full.ProtoMessage().Header; hm != nil {
				wantHdrField = make([]byte, hm.MarshaledSize())
				hm.MarshalStable(wantHdrField)
			}
			c.Count("files_with_valid_object_intact", 1)
		}
		outcome := ""
		note := func(fn string, err error) {
			if err == nil {
				outcome += "+"
				c.Count(fn+"_ok", 1)
			} else {
				outcome += "-"
				c.Count(fn+"_err", 1)
			}
		}
		// class key of a panic: the wrapping that provoked it and the panicking frame (the
		// six APIs funnel into two internal readers; the API is named in the description)
		pfn := func(api string) string {
			return "fstree[" + strings.TrimSuffix(wrap, ",truncated-file") + "]/" + api
		}
		vio := func(fn, class, what string) {
			c.Violation(fmt.Sprintf("C41|fstree.%s|%s|%s", fn, class, wrap), fmt.Sprintf("fstree.%s on a %s file of %d bytes: %s", fn, kind, len(file), what), kind, file, "")
		}

		c.Guard(pfn("Head"), kind, file, func() {
			h, err := fs.Head(addr)
			note("Head", err)
			if mustAgree {
				if err != nil {
					vio("Head", "error-for-valid", err.Error())
				} else if !bytes.Equal(h.Marshal(), wantHdr) {
					vio("Head", "header-differs-from-full-decoding", "")
				}
				c.Count("agreement_checks_Head", 1)
			}
		})
		c.Guard(pfn("GetStream"), kind, file, func() {
			h, rd, err := fs.GetStream(addr)
			note("GetStream", err)
			if err == nil && rd != nil {
				vf41Drain(rd)
				_ = rd.Close()
			}
			if mustAgree {
				if err != nil {
					vio("GetStream", "error-for-valid", err.Error())
				} else if !bytes.Equal(h.CutPayload().Marshal(), wantHdr) {
					vio("GetStream", "header-differs-from-full-decoding", "")
				}
				c.Count("agreement_checks_GetStream", 1)
			}
		})
		c.Guard(pfn("ReadHeader"), kind, file, func() {
			buf := make([]byte, 2*vf41NPFBL)
			n, err := fs.ReadHeader(addr, buf)
			note("ReadHeader", err)
			if mustAgree {
				if err != nil {
					vio("ReadHeader", "error-for-valid", err.Error())
				} else if n > len(x) || !bytes.Equal(buf[:n], x[:n]) || n < len(wantHdr) {
					vio("ReadHeader", "prefix-differs", fmt.Sprintf("n=%d, object %d bytes, header part %d bytes", n, len(x), len(wantHdr)))
				}
				c.Count("agreement_checks_ReadHeader", 1)
			}
		})
		c.Guard(pfn("ReadObject"), kind, file, func() {
			buf := make([]byte, 2*vf41NPFBL)
			_, rd, err := fs.ReadObject(addr, buf)
			note("ReadObject", err)
			if err == nil && rd != nil {
				vf41Drain(rd)
				_ = rd.Close()
			}
			if mustAgree && err != nil {
				vio("ReadObject", "error-for-valid", err.Error())
			}
		})
		c.Guard(pfn("ReadObjectParts"), kind, file, func() {
			buf := make([]byte, 2*vf41NPFBL)
			calls := 0
			var seen []byte
			rngReq := common.PayloadRange{}
			if rng.IntN(2) == 0 {
				rngReq = common.NewPayloadRange(uint64(rng.IntN(50)), uint64(rng.IntN(50)))
			}
			_, rd, err := fs.ReadObjectParts(buf, addr, rngReq, func(h []byte) error { calls++; seen = bytes.Clone(h); return nil })
			note("ReadObjectParts", err)
			if err == nil && rd != nil {
				vf41Drain(rd)
				_ = rd.Close()
			}
			if mustAgree {
				if err != nil && !rngReq.IsSet() {
					vio("ReadObjectParts", "error-for-valid", err.Error())
				}
				if wantHdrField != nil {
					if calls != 1 {
						vio("ReadObjectParts", "header-not-handed-over", fmt.Sprintf("header callback called %d times (err=%v)", calls, err))
					} else if !bytes.Equal(seen, wantHdrField) {
						vio("ReadObjectParts", "located-header-differs-from-full-decoding", fmt.Sprintf("callback got %d bytes, header field has %d", len(seen), len(wantHdrField)))
					}
					c.Count("agreement_checks_ReadObjectParts_header", 1)
				}
			}
		})
		c.Guard(pfn("GetRangeStream"), kind, file, func() {
			h, pl, rd, err := fs.GetRangeStream(addr, common.NewPayloadRange(0, 0), true)
			note("GetRangeStream", err)
			if err == nil && rd != nil {
				vf41Drain(rd)
				_ = rd.Close()
			}
			if mustAgree && full.PayloadSize() == uint64(len(full.Payload())) {
				if err != nil {
					vio("GetRangeStream", "error-for-valid", err.Error())
				} else if h == nil || !bytes.Equal(h.CutPayload().Marshal(), wantHdr) {
					vio("GetRangeStream", "header-differs-from-full-decoding", "")
				} else if pl != full.PayloadSize() {
					vio("GetRangeStream", "payload-length-differs-from-full-decoding", fmt.Sprintf("got %d, header says %d", pl, full.PayloadSize()))
				}
				c.Count("agreement_checks_GetRangeStream", 1)
			}
		})
		c.DistinctSig(fmt.Sprintf("%s|agree=%v|%s", kind, mustAgree, outcome))
		c.Seen("file_wrappings", wrap)
		_ = os.Remove(p)
		if spec.Batch == 0 && i < 3 {
			c.Sample(map[string]any{"kind": kind, "file_len": len(file), "object_len": len(x), "outcomes(Head,GetStream,ReadHeader,ReadObject,ReadObjectParts,GetRangeStream)": outcome})
		}
	}
	if err := c.Save(spec.Out); err != nil {
		t.Fatal(err)
	}
}

func TestVerif_C41(t *testing.T) {
	if spec, ok := verifkit.ChildSpec(); ok {
		vf41Child(t, spec)
		return
	}
	r := verifkit.Start(t, "C41", "exploration")
	defer r.Finish()
	nBatches, perBatch := r.Pick(3, 8), r.Pick(2000, 8000)
	r.SetRule(fmt.Sprintf("%d child processes x %d files: object bytes (generated valid / truncated / 1-3 mutations / random) stored plain, inside a well-formed combined file, inside a combined file whose member prefix is damaged (length 0, 1, +-2, huge; other OID; bad version; truncated file), zstd-compressed, or as a damaged zstd stream; Head, GetStream, ReadHeader, ReadObject, ReadObjectParts, GetRangeStream must not panic and must agree with object.Unmarshal for intact valid content; distinct = (content kind, wrapping, ok/error pattern)", nBatches, perBatch))
	vf41.RunBatches(t, r, "TestVerif_C41", "fstree", nBatches, perBatch, 25*time.Minute)
	if r.Counter("agreement_checks_Head") == 0 || r.Counter("maximal_header_objects") == 0 {
		r.Inconclusive("no intact valid object was read")
	}
}
