//go:build verif

package fstree

// C10: the file-tree storage behaves as a map address -> bytes.
//
// Workload: seeded operation sequences (single Put, concurrent Puts that share one
// combined file, PutBatch, Delete, hand-seeded zstd files and hand-built combined files
// with optionally compressed members) over ~20 addresses per configuration, plus combined
// files whose member boundaries are aimed at the borders of the readers' windows (opAligned)
// and bursts of the same operations over a few "small" addresses whose on-disk length is
// aimed at and below the length of the combined prefix (opSmall), and multi-block compressed
// objects whose first zstd blocks end inside the readers' pre-read prefix, read with all CPUs
// and with one CPU (opZframes).
// Oracle: a Go map (address -> bytes last stored), written from the property statement.
// Every read API must return exactly the model bytes (or the parts of them the API
// documents) for a stored address and not-found for an absent one; every iteration must
// list every stored address exactly once with its bytes.

import (
	"bytes"
	"encoding/binary"
	"errors"
	"fmt"
	"io"
	"math/rand/v2"
	"os"
	"path/filepath"
	"regexp"
	"runtime"
	"runtime/debug"
	"sort"
	"strings"
	"sync"
	"syscall"
	"testing"
	"time"

	"github.com/klauspost/compress/zstd"
	objectwire "github.com/nspcc-dev/neofs-node/internal/object"
	"github.com/nspcc-dev/neofs-node/internal/verifkit"
	"github.com/nspcc-dev/neofs-node/pkg/local_object_storage/blobstor/common"
	apistatus "github.com/nspcc-dev/neofs-sdk-go/client/status"
	neofscrypto "github.com/nspcc-dev/neofs-sdk-go/crypto"
	"github.com/nspcc-dev/neofs-sdk-go/object"
	oid "github.com/nspcc-dev/neofs-sdk-go/object/id"
)

type vf10Cfg struct {
	Depth      uint64 `json:"depth"`
	CountLimit int    `json:"combined_count_limit"`
	SizeLimit  int    `json:"combined_size_limit"`
	Threshold  int    `json:"combined_size_threshold"`
	Generic    bool   `json:"generic_writer"`
	NoSync     bool   `json:"no_sync"`
	IntervalMs int    `json:"combined_write_interval_ms"`
	Procs      int    `json:"gomaxprocs,omitempty"` // 1: the whole case runs as on a single-CPU host; 0: as the process was started
}

func (c vf10Cfg) String() string {
	s := fmt.Sprintf("d%d/cnt%d/lim%d/thr%d/gen%v/nosync%v", c.Depth, c.CountLimit, c.SizeLimit, c.Threshold, c.Generic, c.NoSync)
	if c.Procs > 0 {
		s += fmt.Sprintf("/procs%d", c.Procs)
	}
	return s
}

// vf10Item is one address of the universe with two alternative byte strings (the second
// one is only ever stored after the first one was deleted, and vice versa).
type vf10Item struct {
	addr     oid.Address
	variants [2][]byte
	hdrLen   [2]int // length of the non-payload prefix (id, signature, header fields)
	small    bool   // member of the small-object part of the universe (genSmall)
}

type vf10Step struct {
	Op    string   `json:"op"`
	Addrs []string `json:"addrs,omitempty"`
	Lens  []int    `json:"lens,omitempty"`
	Note  string   `json:"note,omitempty"`
}

type vf10Case struct {
	r     *verifkit.Run
	t     *testing.T
	idx   int
	cfg   vf10Cfg
	fs    *FSTree
	rng   *rand.Rand
	arng  *rand.Rand // stream of the border-aligned combined files (opAligned)
	srng  *rand.Rand // stream of the small-object bursts (genSmall, opSmall)
	zrng  *rand.Rand // stream of the multi-block compressed objects (opZframes)
	vsalt uint64     // mixed into the per-verification streams (second read of the same state)
	zstep int        // opZframes runs at every zstep-th step
	small []*vf10Item
	bias  []*vf10Item // when set, random items are mostly taken from here
	vseed uint64      // seed of the per-verification streams
	items []*vf10Item
	model map[oid.Address][]byte
	byAdr map[oid.Address]*vf10Item
	steps []vf10Step
	aux   string // directory on the same FS used to assemble hand-built files
	auxN  int
	bad   bool
}

const vf10NPFBL = objectwire.NonPayloadFieldsBufferLength

func vf10ObjLen(hdrLen, payloadLen int) int {
	if payloadLen == 0 {
		return hdrLen
	}
	var tmp [binary.MaxVarintLen64]byte
	return hdrLen + 1 + binary.PutUvarint(tmp[:], uint64(payloadLen)) + payloadLen
}

// vf10Payload returns payload bytes of one of three textures (incompressible, zeros, mixed)
// so that zstd-seeded files come out both shorter and not shorter than the original.
func vf10Payload(rng *rand.Rand, n int) []byte {
	b := make([]byte, n)
	switch rng.IntN(3) {
	case 0:
		for i := range b {
			b[i] = byte(rng.Uint32())
		}
	case 1:
		// zeros
	default:
		for i := 0; i < n; {
			run := 1 + rng.IntN(600)
			if rng.IntN(2) == 0 {
				v := byte(rng.Uint32())
				for j := 0; j < run && i < n; j, i = j+1, i+1 {
					b[i] = v
				}
			} else {
				for j := 0; j < run && i < n; j, i = j+1, i+1 {
					b[i] = byte(rng.Uint32())
				}
			}
		}
	}
	return b
}

// vf10Build makes an object whose encoding has (as close as possible) the wanted total
// length; hdrKind selects tiny / small / medium / maximal non-payload part.
// vf10MkObj makes a payload-less object for addr with a tiny (0: ID only), small, medium or
// maximal (3) non-payload part that announces payloadLen; it returns it with its encoded length.
func vf10MkObj(addr oid.Address, hdrKind int, payloadLen int) (*object.Object, int) {
	var obj *object.Object
	if hdrKind == 0 { // tiny: ID only (plus payload)
		obj = new(object.Object)
		obj.SetID(addr.Object())
	} else {
		obj = verifkit.NewObject(rand.New(rand.NewPCG(1, uint64(hdrKind))), addr.Container(), verifkit.RandUser(rand.New(rand.NewPCG(2, 3))), 0)
		obj.SetID(addr.Object())
		obj.SetPayloadSize(uint64(payloadLen))
		switch hdrKind {
		case 2:
			verifkit.AddAttr(obj, "k", string(bytes.Repeat([]byte{'a'}, 3000)))
			verifkit.AddAttr(obj, "l", string(bytes.Repeat([]byte{'b'}, 900)))
		case 3:
			sig := neofscrypto.NewSignatureFromRawKey(neofscrypto.ECDSA_SHA512, bytes.Repeat([]byte{3}, neofscrypto.MaxVerificationScriptLength), bytes.Repeat([]byte{4}, neofscrypto.MaxInvocationScriptLength))
			obj.SetSignature(&sig)
			verifkit.AddAttr(obj, "attr", string(bytes.Repeat([]byte{'c'}, 16000)))
		}
	}
	return obj, len(obj.Marshal())
}

func vf10Build(rng *rand.Rand, addr oid.Address, hdrKind int, wantTotal int) ([]byte, int) {
	mk := func(payloadLen int) (*object.Object, int) { return vf10MkObj(addr, hdrKind, payloadLen) }
	base, hdrLen := mk(0)
	_ = base
	p := wantTotal - hdrLen - 4
	if p < 0 {
		p = 0
	}
	var obj *object.Object
	for range 6 {
		obj, hdrLen = mk(p)
		got := vf10ObjLen(hdrLen, p)
		if got == wantTotal || p == 0 && got > wantTotal {
			break
		}
		p += wantTotal - got
		if p < 0 {
			p = 0
		}
	}
	obj, hdrLen = mk(p)
	if p > 0 {
		obj.SetPayload(vf10Payload(rng, p))
	}
	return obj.Marshal(), hdrLen
}

func (c *vf10Case) genUniverse() {
	thr := c.cfg.Threshold
	targets := []int{
		36, 38, 39, 60, 200, 1000,
		vf10NPFBL - 38, vf10NPFBL - 1, vf10NPFBL, vf10NPFBL + 1, vf10NPFBL + 38,
		2*vf10NPFBL - 1, 2 * vf10NPFBL, 2*vf10NPFBL + 1,
		thr - 1, thr, thr + 1, thr / 2,
		c.cfg.SizeLimit - 38, c.cfg.SizeLimit,
		64 << 10, 256 << 10,
	}
	cnr := verifkit.RandCID(c.rng)
	n := 20
	for i := 0; i < n; i++ {
		it := &vf10Item{}
		if c.rng.IntN(4) == 0 {
			cnr = verifkit.RandCID(c.rng)
		}
		it.addr = oid.NewAddress(cnr, verifkit.RandOID(c.rng))
		for v := 0; v < 2; v++ {
			var want int
			switch k := c.rng.IntN(10); {
			case k < 7:
				want = targets[c.rng.IntN(len(targets))]
			case k < 9:
				want = 36 + c.rng.IntN(3*vf10NPFBL)
			default:
				want = 36 + c.rng.IntN(256<<10)
			}
			if want > 300<<10 {
				want = 300 << 10
			}
			if want < 36 {
				want = 36
			}
			hk := c.rng.IntN(4)
			it.variants[v], it.hdrLen[v] = vf10Build(c.rng, it.addr, hk, want)
		}
		if bytes.Equal(it.variants[0], it.variants[1]) {
			it.variants[1], it.hdrLen[1] = vf10Build(c.rng, it.addr, 1, len(it.variants[0])+17)
		}
		c.items = append(c.items, it)
		c.byAdr[it.addr] = it
	}
}

// ---- small objects ---------------------------------------------------------------------
//
// The readers branch on the number of bytes a file (or a combined member) occupies ON DISK:
// a file shorter than the 38-byte combined prefix cannot be told from a combined file by
// its first prefix-length bytes, a piece shorter than 4 bytes cannot carry the zstd magic.
// Every object of the main universe carries a random 32-byte ID, so its encoding has at
// least 36 bytes and its zstd frame at least ~49: files below the prefix length occur only
// as 36/37-byte plain files there, and never compressed.  The small part of the universe
// holds objects without ID (the address is only in the path) whose raw length, or whose
// compressed length, is aimed at 3..37, 38, 39 and a little more, plus highly compressible
// objects whose raw form is long (beyond one or two reader buffers) while the zstd frame
// is shorter than the prefix.

// vf10SmallObj builds an object without signature: kind 0 payload only, 1 header with the
// payload length, 2 header with type, payload length and an attribute, 3 ID only + payload.
func vf10SmallObj(addr oid.Address, kind int, payload []byte) []byte {
	obj := new(object.Object)
	switch kind {
	case 1:
		obj.SetPayloadSize(uint64(len(payload)))
	case 2:
		obj.SetPayloadSize(uint64(len(payload)))
		obj.SetType(object.TypeTombstone)
		verifkit.AddAttr(obj, "k", "v")
	case 3:
		obj.SetID(addr.Object())
	}
	if len(payload) > 0 {
		obj.SetPayload(payload)
	}
	return obj.Marshal()
}

// vf10BuildSmall returns the bytes of one small object and the name of its class.
func vf10BuildSmall(rng *rand.Rand, addr oid.Address) ([]byte, string) {
	random := func(n int) []byte { return verifkit.RandBytes(rng, n) }
	zeros := func(n int) []byte { return make([]byte, n) }
	rawLen := func(b []byte) int { return len(b) }
	zstdLen := func(b []byte) int { return len(vf10Enc.EncodeAll(b, nil)) }
	// aim adjusts the payload length until measure(encoding) == want (or as close as it gets)
	aim := func(kind int, tex func(int) []byte, measure func([]byte) int, want int) []byte {
		p := max(want-16, 1)
		var b []byte
		for range 10 {
			b = vf10SmallObj(addr, kind, tex(p))
			d := want - measure(b)
			if d == 0 {
				break
			}
			p = max(p+d, 0)
		}
		return b
	}
	tex := random
	if rng.IntN(3) == 0 {
		tex = zeros
	}
	var b []byte
	var class string
	switch k := rng.IntN(100); {
	case k < 28: // raw encoding shorter than the combined prefix
		b, class = aim(rng.IntN(3), tex, rawLen, 3+rng.IntN(combinedDataOff-3)), "raw<38"
	case k < 34:
		b, class = aim(3, tex, rawLen, []int{36, 37}[rng.IntN(2)]), "raw<38,with-id"
	case k < 48: // raw encoding of the prefix length and a little more
		want := []int{combinedDataOff, combinedDataOff + 1, combinedDataOff + 2, combinedDataOff + 3 + rng.IntN(50)}[rng.IntN(4)]
		b, class = aim(rng.IntN(4), tex, rawLen, want), "raw>=38"
	case k < 62: // zstd frame shorter than the combined prefix (incompressible content)
		b, class = aim(rng.IntN(3), random, zstdLen, 16+rng.IntN(combinedDataOff-16)), "zstd<38"
	case k < 74: // zstd frame of the prefix length and a little more
		want := []int{combinedDataOff, combinedDataOff + 1, combinedDataOff + 2, combinedDataOff + 3 + rng.IntN(40)}[rng.IntN(4)]
		b, class = aim(rng.IntN(4), random, zstdLen, want), "zstd>=38"
	default: // long raw form, tiny zstd frame
		n := []int{1 + rng.IntN(200), 200 + rng.IntN(5000), vf10NPFBL - 60 + rng.IntN(120), 2*vf10NPFBL - 60 + rng.IntN(120), 60000 + rng.IntN(60000)}[rng.IntN(5)]
		kind := 1 + rng.IntN(2)
		if n < 100 && rng.IntN(2) == 0 {
			kind = 0
		}
		pl := zeros(n)
		if rng.IntN(2) == 0 { // one repeated byte
			v := byte(1 + rng.IntN(255))
			for i := range pl {
				pl[i] = v
			}
		}
		b, class = vf10SmallObj(addr, kind, pl), "raw-long,zstd-tiny"
	}
	if len(b) == 0 { // no object encodes to nothing in practice; not stored
		b = vf10SmallObj(addr, 0, random(1))
	}
	return b, class
}

// genSmall adds the small part of the universe (own random stream).
func (c *vf10Case) genSmall(n int) {
	if c.srng == nil {
		return
	}
	rng := c.srng
	cnr := verifkit.RandCID(rng)
	for i := 0; i < n; i++ {
		it := &vf10Item{small: true}
		if rng.IntN(3) == 0 {
			cnr = verifkit.RandCID(rng)
		}
		it.addr = oid.NewAddress(cnr, verifkit.RandOID(rng))
		for v := 0; v < 2; v++ {
			for try := 0; ; try++ {
				b, class := vf10BuildSmall(rng, it.addr)
				if v == 1 && bytes.Equal(b, it.variants[0]) && try < 20 {
					continue
				}
				it.variants[v] = b
				var o object.Object
				if err := o.Unmarshal(b); err == nil {
					it.hdrLen[v] = len(o.CutPayload().Marshal())
				}
				c.r.Seen("small_object_classes", class)
				break
			}
		}
		c.items = append(c.items, it)
		c.small = append(c.small, it)
		c.byAdr[it.addr] = it
	}
}

func (c *vf10Case) open() {
	opts := []Option{
		WithPath(filepath.Join(c.t.TempDir(), "root")),
		WithDepth(c.cfg.Depth),
		WithNoSync(c.cfg.NoSync),
		WithCombinedCountLimit(c.cfg.CountLimit),
		WithCombinedSizeLimit(c.cfg.SizeLimit),
		WithCombinedSizeThreshold(c.cfg.Threshold),
		WithCombinedWriteInterval(time.Duration(c.cfg.IntervalMs) * time.Millisecond),
	}
	c.fs = New(opts...)
	if err := c.fs.Open(false); err != nil {
		c.t.Fatalf("open: %v", err)
	}
	if err := c.fs.Init(common.ID{}); err != nil {
		c.t.Fatalf("init: %v", err)
	}
	if c.cfg.Generic {
		c.fs.writer = newGenericWriter(c.fs.Permissions, c.fs.noSync)
	}
	c.r.Seen("writers_used", fmt.Sprintf("%T", c.fs.writer))
	c.aux = filepath.Join(filepath.Dir(c.fs.RootPath), "aux")
	if err := os.MkdirAll(c.aux, 0o700); err != nil {
		c.t.Fatalf("aux: %v", err)
	}
}

func vf10LenClass(n int) string {
	switch {
	case n < combinedDataOff:
		return "<38"
	case n < vf10NPFBL:
		return "<NPFBL"
	case n == vf10NPFBL:
		return "==NPFBL"
	case n < 2*vf10NPFBL:
		return "<2NPFBL"
	case n == 2*vf10NPFBL:
		return "==2NPFBL"
	default:
		return ">2NPFBL"
	}
}

// format looks at the raw file behind addr (only to name the class of a finding and to
// count what was exercised; the verdict never depends on it).
func (c *vf10Case) format(addr oid.Address) string {
	f, _ := c.formatLen(addr)
	return f
}

// vf10IsZstd tells whether b starts with the zstd frame magic (own copy: the classification
// of a finding must not depend on the code under test).
func vf10IsZstd(b []byte) bool {
	return len(b) >= 4 && b[0] == 0x28 && b[1] == 0xb5 && b[2] == 0x2f && b[3] == 0xfd
}

// formatLen returns the on-disk format of addr's data and the number of bytes it
// occupies on disk (member length for combined files, file length otherwise).
func (c *vf10Case) formatLen(addr oid.Address) (string, int) {
	f, err := os.Open(c.fs.treePath(addr))
	if err != nil {
		return "nofile", 0
	}
	defer f.Close()
	var b [combinedDataOff]byte
	n, _ := io.ReadFull(f, b[:])
	if n >= 2 && b[0] == combinedPrefix && b[1] == 0 {
		// find own member to see whether it is compressed
		id := addr.Object()
		off := int64(0)
		for {
			var p [combinedDataOff]byte
			if _, err := f.ReadAt(p[:], off); err != nil {
				return "combined", 0
			}
			l := int64(binary.BigEndian.Uint32(p[combinedLengthOff:]))
			if bytes.Equal(p[combinedIDOff:combinedLengthOff], id[:]) {
				var m [4]byte
				if _, err := f.ReadAt(m[:], off+combinedDataOff); err == nil && vf10IsZstd(m[:]) {
					return "combined+zstd", int(l)
				}
				return "combined", int(l)
			}
			off += combinedDataOff + l
		}
	}
	sz := 0
	if st, err := f.Stat(); err == nil {
		sz = int(st.Size())
	}
	if vf10IsZstd(b[:n]) {
		return "zstd", sz
	}
	return "plain", sz
}

func (c *vf10Case) inode(addr oid.Address) uint64 {
	st, err := os.Stat(c.fs.treePath(addr))
	if err != nil {
		return 0
	}
	if s, ok := st.Sys().(*syscall.Stat_t); ok {
		return s.Ino
	}
	return 0
}

func (c *vf10Case) violation(api, kind string, addr oid.Address, what string) {
	f, dl := c.formatLen(addr)
	c.report(fmt.Sprintf("C10|%s|%s|fmt=%s|len%s|disk%s", api, kind, f, vf10LenClass(len(c.model[addr])), vf10LenClass(dl)), api, addr, what)
}

// violationKey reports a finding whose kind already names the mechanism (no length classes in the key).
func (c *vf10Case) violationKey(api, kind string, addr oid.Address, what string) {
	c.report(fmt.Sprintf("C10|%s|%s|fmt=%s", api, kind, c.format(addr)), api, addr, what)
}

func (c *vf10Case) report(key, api string, addr oid.Address, what string) {
	want := c.model[addr]
	_, dl := c.formatLen(addr)
	steps := c.steps
	if len(steps) > 400 {
		steps = steps[len(steps)-400:]
	}
	before := c.r.Violations()
	c.r.Violation(key, fmt.Sprintf("cfg %s case %d step %d: %s(%s): %s (stored %d bytes, %d on disk, GOMAXPROCS %d)", c.cfg, c.idx, len(c.steps), api, addr, what, len(want), dl, runtime.GOMAXPROCS(0)),
		map[string]any{"case": c.idx, "cfg": c.cfg, "addr": addr.String(), "stored_len": len(want), "steps": steps})
	if c.r.Violations() > before { // listed known findings do not stop the exploration of this case
		c.bad = true
	} else {
		c.r.Count("known_finding_observations", 1)
	}
}

// vf10Shape names how got differs from want (part of the class key).
func vf10Shape(got, want []byte) string {
	switch {
	case len(got) < len(want) && bytes.Equal(got, want[:len(got)]):
		return "truncated"
	case len(got) > len(want) && bytes.Equal(got[:len(want)], want):
		return "excess-bytes"
	default:
		return "wrong-bytes"
	}
}

func vf10IsNotFound(err error) bool { return errors.Is(err, apistatus.ErrObjectNotFound) }

// vf10ReadAll drains rd with seeded chunk sizes up to the first io.EOF, as any standard
// consumer does; it tolerates (n>0, io.EOF).  resumed tells (for the class key only) that
// the reader delivered more bytes when read again after that io.EOF, i.e. the EOF was
// premature.
func vf10ReadAll(rng *rand.Rand, rd io.Reader) (out []byte, resumed bool, err error) {
	sizes := []int{1, 3, 37, 512, 4096, 20480, 65536, 1 << 20}
	chunk := sizes[rng.IntN(len(sizes))]
	buf := make([]byte, chunk)
	zero := 0
	for {
		n, err := rd.Read(buf)
		out = append(out, buf[:n]...)
		if err != nil {
			if errors.Is(err, io.EOF) {
				probe := make([]byte, 4096)
				for range 3 {
					if m, _ := rd.Read(probe); m > 0 {
						return out, true, nil
					}
				}
				return out, false, nil
			}
			return out, false, err
		}
		if n == 0 {
			if zero++; zero > 1000 {
				return out, false, errors.New("reader makes no progress (1000 empty reads without error)")
			}
		} else {
			zero = 0
		}
		if len(out) > 64<<20 {
			return out, false, errors.New("reader yields more than 64 MiB")
		}
		if chunk < 4096 && len(out) > 8192 { // speed up tiny-chunk reads after the interesting prefix
			chunk = 65536
			buf = make([]byte, chunk)
		}
	}
}

func vf10Diff(got, want []byte) string {
	if len(got) != len(want) {
		n := min(len(got), len(want))
		i := 0
		for i < n && got[i] == want[i] {
			i++
		}
		return fmt.Sprintf("got %d bytes, want %d (first difference at %d)", len(got), len(want), i)
	}
	for i := range got {
		if got[i] != want[i] {
			return fmt.Sprintf("same length %d, first difference at %d", len(got), i)
		}
	}
	return "equal"
}

var vf10PanicNoise = regexp.MustCompile(`\[[^\]]*\]|0x[0-9a-fA-F]+|[0-9]+`)

// vf10PanicSite returns the function (without package path) of the innermost non-runtime
// frame of a panic stack and whether that frame is harness code.
func vf10PanicSite(st string) (fn string, harness bool) {
	lines := strings.Split(st, "\n")
	seenPanic := false
	for i, l := range lines {
		if strings.HasPrefix(l, "panic(") {
			seenPanic = true
			continue
		}
		if !seenPanic || l == "" || strings.HasPrefix(l, "\t") || strings.HasPrefix(l, "goroutine ") || strings.HasPrefix(l, "runtime.") || strings.HasPrefix(l, "runtime/") {
			continue
		}
		fn = l
		if j := strings.LastIndex(fn, "("); j > 0 {
			fn = fn[:j]
		}
		if j := strings.LastIndex(fn, "."); j >= 0 {
			fn = fn[j+1:]
		}
		file := ""
		if i+1 < len(lines) {
			file = lines[i+1]
		}
		return fn, strings.Contains(file, "zz_verif") || strings.Contains(l, "verifkit")
	}
	return "unknown", false
}

// guardRead turns a panic of the code under test during a read of addr into a violation
// whose class key names the API, the kind of panic, the panicking function and the on-disk
// format (a stored address must be readable, an absent one must give not-found).  Panics
// of harness code are passed on (the kit reports them as inconclusive).
func (c *vf10Case) guardRead(api string, addr oid.Address, f func()) {
	defer func() {
		p := recover()
		if p == nil {
			return
		}
		fn, harness := vf10PanicSite(string(debug.Stack()))
		if harness {
			panic(p)
		}
		shape := strings.Join(strings.Fields(vf10PanicNoise.ReplaceAllString(strings.TrimPrefix(fmt.Sprint(p), "runtime error: "), "")), "-")
		c.violationKey(api, "panic:"+shape+"@"+fn, addr, fmt.Sprintf("panic in code under test: %v", p))
	}()
	f()
}

// verify checks every read API for addr against the model.
func (c *vf10Case) verify(addr oid.Address, full bool) {
	want, present := c.model[addr]
	it := c.byAdr[addr]
	fs := c.fs
	desc := map[string]any{"case": c.idx, "cfg": c.cfg, "addr": addr.String(), "step": len(c.steps)}
	// The way the streams are drained (chunk sizes, buffer length) is drawn from a stream of
	// its own that depends on the case, the step and the address only: how many addresses
	// are verified after a step depends on which concurrent puts came to share a file
	// (scheduling), and that must not shift the stream the history is drawn from.
	ab := addr.Object()
	vr := rand.New(rand.NewPCG(c.vseed^uint64(len(c.steps)), binary.LittleEndian.Uint64(ab[:8])^c.vsalt))
	outcome := "absent"
	if present {
		outcome = "present"
	}
	api := func(name string, f func()) {
		c.r.Count("read_"+name+"_"+outcome, 1)
		if c.r.Guard(desc, func() { c.guardRead(name, addr, f) }) {
			c.bad = true
		}
	}
	absentCheck := func(name string, err error) {
		if err == nil {
			c.violation(name, "found-after-delete", addr, "returned data for an address that is not stored")
		} else if !vf10IsNotFound(err) {
			c.violation(name, "absent-not-notfound", addr, "address is not stored but the error is not not-found: "+err.Error())
		}
	}

	api("Exists", func() {
		ok, err := fs.Exists(addr)
		if err != nil {
			c.violation("Exists", "error", addr, err.Error())
		} else if ok != present {
			c.violation("Exists", fmt.Sprintf("says-%v", ok), addr, fmt.Sprintf("Exists=%v, stored=%v", ok, present))
		}
	})
	api("GetBytes", func() {
		b, err := fs.GetBytes(addr)
		if !present {
			absentCheck("GetBytes", err)
			return
		}
		if err != nil {
			c.violation("GetBytes", "error-for-stored", addr, err.Error())
		} else if !bytes.Equal(b, want) {
			c.violation("GetBytes", vf10Shape(b, want), addr, vf10Diff(b, want))
		}
	})
	if !full {
		return
	}
	var wantObj object.Object
	var wantHdr []byte
	if present {
		if err := wantObj.Unmarshal(want); err != nil {
			c.r.Inconclusive("harness produced an undecodable object: " + err.Error())
			return
		}
		wantHdr = wantObj.CutPayload().Marshal()
	}
	api("Get", func() {
		o, err := fs.Get(addr)
		if !present {
			absentCheck("Get", err)
			return
		}
		if err != nil {
			c.violation("Get", "error-for-stored", addr, err.Error())
		} else if got := o.Marshal(); !bytes.Equal(got, want) {
			c.violation("Get", vf10Shape(got, want), addr, vf10Diff(got, want))
		}
	})
	api("Head", func() {
		o, err := fs.Head(addr)
		if !present {
			absentCheck("Head", err)
			return
		}
		if err != nil {
			c.violation("Head", "error-for-stored", addr, err.Error())
		} else if got := o.Marshal(); !bytes.Equal(got, wantHdr) {
			c.violation("Head", "wrong-header", addr, vf10Diff(got, wantHdr))
		}
	})
	api("GetStream", func() {
		o, rd, err := fs.GetStream(addr)
		if !present {
			if err == nil && rd != nil {
				rd.Close()
			}
			absentCheck("GetStream", err)
			return
		}
		if err != nil {
			c.violation("GetStream", "error-for-stored", addr, err.Error())
			return
		}
		if rd == nil {
			c.violation("GetStream", "nil-reader", addr, "nil reader with nil error")
			return
		}
		defer rd.Close()
		if got := o.CutPayload().Marshal(); !bytes.Equal(got, wantHdr) {
			c.violation("GetStream", "wrong-header", addr, vf10Diff(got, wantHdr))
		}
		pl, resumed, err := vf10ReadAll(vr, rd)
		if err != nil {
			c.violation("GetStream", "stream-error", addr, err.Error())
		} else if resumed && vf10Shape(pl, wantObj.Payload()) == "truncated" {
			c.violationKey("GetStream", "premature-eof", addr, "payload stream reported io.EOF while bytes remained: "+vf10Diff(pl, wantObj.Payload()))
		} else if !bytes.Equal(pl, wantObj.Payload()) {
			c.violation("GetStream", "payload-"+vf10Shape(pl, wantObj.Payload()), addr, vf10Diff(pl, wantObj.Payload()))
		}
	})
	bufLen := 2 * vf10NPFBL
	if vr.IntN(3) == 0 {
		bufLen += vr.IntN(3 * vf10NPFBL)
	}
	api("ReadObject", func() {
		buf := make([]byte, bufLen)
		n, rd, err := fs.ReadObject(addr, buf)
		if !present {
			if err == nil && rd != nil {
				rd.Close()
			}
			absentCheck("ReadObject", err)
			return
		}
		if err != nil {
			c.violation("ReadObject", "error-for-stored", addr, err.Error())
			return
		}
		if rd == nil {
			c.violation("ReadObject", "nil-reader", addr, "nil reader with nil error")
			return
		}
		defer rd.Close()
		if n < 0 || n > len(buf) {
			c.violation("ReadObject", "bad-n", addr, fmt.Sprintf("n=%d with buffer of %d", n, len(buf)))
			return
		}
		rest, resumed, err := vf10ReadAll(vr, rd)
		if err != nil {
			c.violation("ReadObject", "stream-error", addr, err.Error())
			return
		}
		got := append(append([]byte(nil), buf[:n]...), rest...)
		if resumed && vf10Shape(got, want) == "truncated" {
			c.violationKey("ReadObject", "premature-eof", addr, fmt.Sprintf("prefix %d + stream %d, stream reported io.EOF while bytes remained: %s", n, len(rest), vf10Diff(got, want)))
		} else if !bytes.Equal(got, want) {
			c.violation("ReadObject", vf10Shape(got, want), addr, fmt.Sprintf("prefix %d + stream %d: %s", n, len(rest), vf10Diff(got, want)))
		}
		if n < min(len(want), len(wantHdr)) {
			c.violation("ReadObject", "header-not-in-prefix", addr, fmt.Sprintf("prefix of %d bytes does not contain the %d header bytes", n, len(wantHdr)))
		}
	})
	api("ReadHeader", func() {
		buf := make([]byte, bufLen)
		n, err := fs.ReadHeader(addr, buf)
		if !present {
			absentCheck("ReadHeader", err)
			return
		}
		if err != nil {
			c.violation("ReadHeader", "error-for-stored", addr, err.Error())
			return
		}
		if n < 0 || n > len(buf) || n > len(want) || !bytes.Equal(buf[:n], want[:n]) {
			c.violation("ReadHeader", "not-a-prefix", addr, fmt.Sprintf("n=%d is not a prefix of the %d stored bytes", n, len(want)))
			return
		}
		var hl int
		if it != nil {
			hl = len(wantHdr)
		}
		if n < hl {
			c.violation("ReadHeader", "header-not-in-prefix", addr, fmt.Sprintf("prefix of %d bytes does not contain the %d header bytes", n, hl))
		}
	})
}

func (c *vf10Case) verifyIterations() {
	desc := map[string]any{"case": c.idx, "cfg": c.cfg, "step": len(c.steps)}
	fs := c.fs
	var zero oid.Address
	report := func(api string, seen map[oid.Address]int) {
		for a, n := range seen {
			if _, ok := c.model[a]; !ok {
				c.violation(api, "lists-absent", a, "iteration listed an address that is not stored")
			} else if n != 1 {
				c.violation(api, "lists-twice", a, fmt.Sprintf("address listed %d times", n))
			}
		}
		for a := range c.model {
			if seen[a] == 0 {
				c.violation(api, "misses-stored", a, "iteration did not list a stored address")
			}
		}
	}
	c.r.Count("iterate_calls", 3)
	c.r.Max("iterate_max_listed", int64(len(c.model)))
	c.r.Guard(desc, func() {
		seen := map[oid.Address]int{}
		err := fs.Iterate(func(a oid.Address, data []byte) error {
			seen[a]++
			if want, ok := c.model[a]; ok && !bytes.Equal(data, want) {
				c.violation("Iterate", vf10Shape(data, want), a, vf10Diff(data, want))
			}
			return nil
		}, func(a oid.Address, err error) error {
			c.violation("Iterate", "error-handler-called", a, "error for an entry: "+err.Error())
			return nil
		})
		if err != nil {
			c.violation("Iterate", "error", zero, err.Error())
		}
		report("Iterate", seen)
	})
	c.r.Guard(desc, func() {
		seen := map[oid.Address]int{}
		if err := fs.IterateAddresses(func(a oid.Address) error { seen[a]++; return nil }, false); err != nil {
			c.violation("IterateAddresses", "error", zero, err.Error())
		}
		report("IterateAddresses", seen)
	})
	c.r.Guard(desc, func() {
		seen := map[oid.Address]int{}
		if err := fs.IterateSizes(func(a oid.Address, _ uint64) error { seen[a]++; return nil }, false); err != nil {
			c.violation("IterateSizes", "error", zero, err.Error())
		}
		report("IterateSizes", seen)
	})
}

func (c *vf10Case) sweep() {
	for _, it := range c.items {
		c.verify(it.addr, true)
	}
	c.verifyIterations()
	c.r.Count("full_sweeps", 1)
}

// chooseBytes returns the bytes a put of it must carry: the stored ones when the address
// is present (content addressing: the same address is never re-put with other bytes
// while it is stored), a seeded variant otherwise.
func (c *vf10Case) chooseBytes(it *vf10Item) []byte {
	if b, ok := c.model[it.addr]; ok {
		return b
	}
	return it.variants[c.rng.IntN(2)]
}

// randItem draws an address of the universe (mostly from c.bias while that is set).
func (c *vf10Case) randItem() *vf10Item {
	if len(c.bias) > 0 && c.rng.IntN(5) != 0 {
		return c.bias[c.rng.IntN(len(c.bias))]
	}
	return c.items[c.rng.IntN(len(c.items))]
}

func (c *vf10Case) pick(wantPresent, strict bool) *vf10Item {
	for range 40 {
		it := c.randItem()
		if _, ok := c.model[it.addr]; ok == wantPresent {
			return it
		}
	}
	if strict {
		return nil
	}
	return c.randItem()
}

func (c *vf10Case) log(op string, its []*vf10Item, lens []int, note string) {
	s := vf10Step{Op: op, Note: note, Lens: lens}
	for _, it := range its {
		s.Addrs = append(s.Addrs, it.addr.String())
	}
	c.steps = append(c.steps, s)
}

func (c *vf10Case) afterWrite(op string, touched []*vf10Item) {
	for _, it := range touched {
		c.verify(it.addr, true)
		if b, ok := c.model[it.addr]; ok {
			f, dl := c.formatLen(it.addr)
			c.r.Seen("formats_on_disk", f)
			c.r.Seen("on_disk_format_and_length_class", f+":"+vf10LenClass(dl))
			if dl < combinedDataOff+2 { // evidence only
				c.r.Seen("on_disk_lengths_up_to_prefix_length_"+f, fmt.Sprint(dl))
			}
			if dl < combinedDataOff {
				c.r.Count("stored_shorter_than_prefix_on_disk_"+f, 1)
				if len(b) >= vf10NPFBL {
					c.r.Count("stored_shorter_than_prefix_on_disk_but_longer_than_buffer_raw", 1)
				}
			}
			c.r.Distinct(fmt.Sprintf("%s|%s|%s|%s|disk%s", c.cfg, op, f, vf10LenClass(len(b)), vf10LenClass(dl)))
		}
	}
	for range 3 {
		c.verify(c.items[c.rng.IntN(len(c.items))].addr, true)
	}
	for _, it := range c.items {
		c.verify(it.addr, false)
	}
}

func (c *vf10Case) opPut() {
	it := c.pick(c.rng.IntN(4) == 0, false)
	data := c.chooseBytes(it)
	_, was := c.model[it.addr]
	c.log("put", []*vf10Item{it}, []int{len(data)}, fmt.Sprintf("present=%v", was))
	var err error
	if c.r.Guard(c.steps[len(c.steps)-1], func() { err = c.fs.Put(it.addr, data) }) {
		c.bad = true
		return
	}
	if err != nil {
		c.r.Count("put_err", 1)
		c.violation("Put", "error", it.addr, "put of a healthy store failed: "+err.Error())
		return
	}
	c.r.Count("put_ok", 1)
	if was {
		c.r.Count("put_ok_over_present", 1)
	}
	c.model[it.addr] = data
	c.afterWrite("put", []*vf10Item{it})
}

func (c *vf10Case) distinctItems(k int, absentBias bool) []*vf10Item {
	seen := map[*vf10Item]bool{}
	var out []*vf10Item
	for i := 0; i < 6*k && len(out) < k; i++ {
		var it *vf10Item
		if absentBias {
			it = c.pick(c.rng.IntN(5) == 0, false)
		} else {
			it = c.randItem()
		}
		if !seen[it] {
			seen[it] = true
			out = append(out, it)
		}
	}
	return out
}

// opPutConcurrent issues several single puts at once so that the linux writer packs them
// into one combined file (the only way single puts share a file).
func (c *vf10Case) opPutConcurrent() {
	its := c.distinctItems(2+c.rng.IntN(7), true)
	datas := make([][]byte, len(its))
	lens := make([]int, len(its))
	for i, it := range its {
		datas[i] = c.chooseBytes(it)
		lens[i] = len(datas[i])
	}
	c.log("put-concurrent", its, lens, "")
	errs := make([]error, len(its))
	var wg sync.WaitGroup
	pan := make([]any, len(its))
	for i := range its {
		wg.Add(1)
		go func() {
			defer wg.Done()
			defer func() { pan[i] = recover() }()
			errs[i] = c.fs.Put(its[i].addr, datas[i])
		}()
	}
	wg.Wait()
	for i, it := range its {
		if pan[i] != nil {
			c.violation("Put", "panic-concurrent", it.addr, fmt.Sprint(pan[i]))
			return
		}
		if errs[i] != nil {
			c.violation("Put", "error-concurrent", it.addr, errs[i].Error())
			return
		}
		c.model[it.addr] = datas[i]
	}
	c.r.Count("put_concurrent_groups", 1)
	c.r.Count("put_concurrent_objects", len(its))
	c.groupStats(its)
	c.afterWrite("put-concurrent", its)
}

func (c *vf10Case) groupStats(its []*vf10Item) {
	per := map[uint64]int{}
	for _, it := range its {
		if ino := c.inode(it.addr); ino != 0 {
			per[ino]++
		}
	}
	for _, n := range per {
		c.r.Max("max_members_sharing_one_file", int64(n))
	}
}

func (c *vf10Case) opPutBatch() {
	its := c.distinctItems(1+c.rng.IntN(9), c.rng.IntN(3) != 0)
	m := map[oid.Address][]byte{}
	lens := make([]int, len(its))
	mixed := 0
	for i, it := range its {
		m[it.addr] = c.chooseBytes(it)
		lens[i] = len(m[it.addr])
		if _, ok := c.model[it.addr]; ok {
			mixed++
		}
	}
	c.log("putbatch", its, lens, fmt.Sprintf("already-present=%d", mixed))
	var err error
	if c.r.Guard(c.steps[len(c.steps)-1], func() { err = c.fs.PutBatch(m) }) {
		c.bad = true
		return
	}
	if err != nil {
		c.violation("PutBatch", "error", its[0].addr, "batch put on a healthy store failed: "+err.Error())
		return
	}
	for a, b := range m {
		c.model[a] = b
	}
	c.r.Count("putbatch_ok", 1)
	c.r.Count("putbatch_objects", len(its))
	if mixed > 0 && mixed < len(its) {
		c.r.Count("putbatch_mixing_present_and_absent", 1)
	}
	c.groupStats(its)
	c.afterWrite("putbatch", its)
}

func (c *vf10Case) opDelete() {
	it := c.pick(c.rng.IntN(6) != 0, false)
	_, was := c.model[it.addr]
	var mates []*vf10Item
	if was {
		ino := c.inode(it.addr)
		for _, o := range c.items {
			if o != it {
				if _, ok := c.model[o.addr]; ok && ino != 0 && c.inode(o.addr) == ino {
					mates = append(mates, o)
				}
			}
		}
	}
	c.log("delete", []*vf10Item{it}, nil, fmt.Sprintf("present=%v mates=%d", was, len(mates)))
	var err error
	if c.r.Guard(c.steps[len(c.steps)-1], func() { err = c.fs.Delete(it.addr) }) {
		c.bad = true
		return
	}
	if was {
		if err != nil {
			c.violation("Delete", "error-for-stored", it.addr, err.Error())
			return
		}
		c.r.Count("delete_ok", 1)
		delete(c.model, it.addr)
	} else {
		c.r.Count("delete_of_absent", 1)
		if err == nil {
			c.r.Count("delete_of_absent_returned_nil", 1)
		}
	}
	if len(mates) > 0 {
		c.r.Count("deletes_of_one_member_of_a_shared_file", 1)
		c.r.Count("survivor_reads_after_member_delete", len(mates))
	}
	c.afterWrite("delete", append([]*vf10Item{it}, mates...))
}

var vf10Enc, _ = zstd.NewWriter(nil)

// opSeedZstd plants a zstd-compressed single file (what older nodes wrote) for an absent address.
func (c *vf10Case) opSeedZstd() { c.seedFile(true) }

// opSeedPlain plants an uncompressed single file (what the generic writer, or the linux
// writer with combined files switched off, wrote before the configuration was changed).
func (c *vf10Case) opSeedPlain() { c.seedFile(false) }

func (c *vf10Case) seedFile(compress bool) {
	it := c.pick(false, true)
	if it == nil {
		return
	}
	data := it.variants[c.rng.IntN(2)]
	p := c.fs.treePath(it.addr)
	if !compress {
		c.log("seed-plain", []*vf10Item{it}, []int{len(data)}, "")
		if err := os.MkdirAll(filepath.Dir(p), 0o700); err != nil {
			c.r.Inconclusive("seed mkdir: " + err.Error())
			return
		}
		if err := os.WriteFile(p, data, 0o600); err != nil {
			c.r.Inconclusive("seed write: " + err.Error())
			return
		}
		c.model[it.addr] = data
		c.r.Count("seeded_plain_files", 1)
		c.afterWrite("seed-plain", []*vf10Item{it})
		return
	}
	comp := vf10Enc.EncodeAll(data, nil)
	c.log("seed-zstd", []*vf10Item{it}, []int{len(data)}, fmt.Sprintf("compressed=%d", len(comp)))
	if err := os.MkdirAll(filepath.Dir(p), 0o700); err != nil {
		c.r.Inconclusive("seed mkdir: " + err.Error())
		return
	}
	if err := os.WriteFile(p, comp, 0o600); err != nil {
		c.r.Inconclusive("seed write: " + err.Error())
		return
	}
	c.model[it.addr] = data
	c.r.Count("seeded_zstd_files", 1)
	c.r.Seen("zstd_len_class_compressed", vf10LenClass(len(comp)))
	c.afterWrite("seed-zstd", []*vf10Item{it})
}

// opSeedCombined plants a hand-built combined file (layout of doc.go: 0x7f 0x00 OID len32
// data, repeated; one hard link per member) whose members are optionally compressed.
func (c *vf10Case) opSeedCombined() {
	var its []*vf10Item
	seen := map[*vf10Item]bool{}
	for i := 0; i < 30 && len(its) < 1+c.rng.IntN(6); i++ {
		if it := c.pick(false, true); it != nil && !seen[it] {
			seen[it] = true
			its = append(its, it)
		}
	}
	if len(its) == 0 {
		return
	}
	var file []byte
	lens := make([]int, len(its))
	datas := make([][]byte, len(its))
	ncomp := 0
	for i, it := range its {
		data := it.variants[c.rng.IntN(2)]
		datas[i], lens[i] = data, len(data)
		member := data
		if c.rng.IntN(2) == 0 {
			member = vf10Enc.EncodeAll(data, nil)
			ncomp++
		}
		var pref [combinedDataOff]byte
		pref[0] = combinedPrefix
		id := it.addr.Object()
		copy(pref[combinedIDOff:], id[:])
		binary.BigEndian.PutUint32(pref[combinedLengthOff:], uint32(len(member)))
		file = append(append(file, pref[:]...), member...)
	}
	c.auxN++
	tmp := filepath.Join(c.aux, fmt.Sprintf("combined-%d", c.auxN))
	c.log("seed-combined", its, lens, fmt.Sprintf("compressed-members=%d", ncomp))
	if err := os.WriteFile(tmp, file, 0o600); err != nil {
		c.r.Inconclusive("seed write: " + err.Error())
		return
	}
	for i, it := range its {
		p := c.fs.treePath(it.addr)
		if err := os.MkdirAll(filepath.Dir(p), 0o700); err != nil {
			c.r.Inconclusive("seed mkdir: " + err.Error())
			return
		}
		if err := os.Link(tmp, p); err != nil {
			c.r.Inconclusive("seed link: " + err.Error())
			return
		}
		c.model[it.addr] = datas[i]
	}
	_ = os.Remove(tmp)
	c.r.Count("seeded_combined_files", 1)
	c.r.Count("seeded_combined_members_compressed", ncomp)
	c.afterWrite("seed-combined", its)
}

// ---- border-aligned combined files -------------------------------------------------
//
// The readers walk a combined file member by member through fixed-size read windows.
// Whether a member's 38-byte prefix (or its header) lies wholly inside a window, ends
// exactly on a window border, straddles the border or lies beyond it depends only on the
// cumulative lengths of the preceding members, and random lengths almost never produce
// the 1..37-byte straddle.  opAligned therefore builds combined files whose member
// lengths are computed so that the start of a later member's prefix lands a chosen
// distance t before a multiple of the window length W, counted from an earlier prefix
// start of the same file (the file start, the end of a member longer than a window, or
// any earlier member).  The oracle is unchanged: the Go map, through every read API.

// vf10BuildExact makes an object for addr whose encoding is exactly want bytes long if any
// of the header kinds allows that (ok=false: closest length reached).
func vf10BuildExact(rng *rand.Rand, addr oid.Address, want int, kinds []int) (data []byte, hdrLen int, kind int, ok bool) {
	for _, hk := range kinds {
		data, hdrLen = vf10Build(rng, addr, hk, want)
		if len(data) == want {
			return data, hdrLen, hk, true
		}
	}
	return data, hdrLen, kinds[len(kinds)-1], false
}

// vf10PickTail picks how many bytes before a window border the next member must start:
// 0 = on the border, 1..37 = its prefix straddles the border, 38 = its data starts on the
// border, more = its header straddles the border.
func vf10PickTail(rng *rand.Rand, w int) int {
	switch k := rng.IntN(100); {
	case k < 40:
		return 1 + rng.IntN(combinedDataOff-1)
	case k < 50:
		return []int{1, combinedDataOff - 1}[rng.IntN(2)]
	case k < 60:
		return 0
	case k < 70:
		return combinedDataOff
	case k < 74:
		return combinedDataOff + 1
	case k < 82: // the member starts inside the last prefix-length of a window that carries a tail over
		return combinedDataOff + rng.IntN(combinedDataOff)
	case k < 90:
		return combinedDataOff + 2 + rng.IntN(200)
	default:
		return combinedDataOff + rng.IntN(w/2)
	}
}

// plantCombined writes a combined file with the given members in the given order (layout
// of doc.go) and links it under the path of every member.
func (c *vf10Case) plantCombined(its []*vf10Item, stored [][]byte) bool {
	var file []byte
	for i, it := range its {
		var pref [combinedDataOff]byte
		pref[0] = combinedPrefix
		id := it.addr.Object()
		copy(pref[combinedIDOff:], id[:])
		binary.BigEndian.PutUint32(pref[combinedLengthOff:], uint32(len(stored[i])))
		file = append(append(file, pref[:]...), stored[i]...)
	}
	c.auxN++
	tmp := filepath.Join(c.aux, fmt.Sprintf("aligned-%d", c.auxN))
	if err := os.WriteFile(tmp, file, 0o600); err != nil {
		c.r.Inconclusive("aligned write: " + err.Error())
		return false
	}
	defer os.Remove(tmp)
	for _, it := range its {
		p := c.fs.treePath(it.addr)
		if err := os.MkdirAll(filepath.Dir(p), 0o700); err != nil {
			c.r.Inconclusive("aligned mkdir: " + err.Error())
			return false
		}
		if err := os.Link(tmp, p); err != nil {
			c.r.Inconclusive("aligned link: " + err.Error())
			return false
		}
	}
	return true
}

func (c *vf10Case) opAligned() {
	if c.arng == nil {
		return
	}
	saved := c.rng
	c.rng = c.arng // own stream: the main history of the case does not depend on these files
	defer func() { c.rng = saved }()
	rng := c.rng

	w := []int{vf10NPFBL, vf10NPFBL, vf10NPFBL, vf10NPFBL, vf10NPFBL, vf10NPFBL, vf10NPFBL, 2 * vf10NPFBL, 4096, 32768}[rng.IntN(10)]
	const minLen = 40
	cnr := verifkit.RandCID(rng)
	newItem := func() *vf10Item {
		if rng.IntN(4) == 0 {
			cnr = verifkit.RandCID(rng)
		}
		return &vf10Item{addr: oid.NewAddress(cnr, verifkit.RandOID(rng))}
	}
	allKinds := func() []int {
		k := []int{0, 1, 2, 3}
		rng.Shuffle(len(k), func(i, j int) { k[i], k[j] = k[j], k[i] })
		return k
	}

	var (
		its    []*vf10Item
		datas  [][]byte
		stored [][]byte
		aims   []string
		mode   = "planted"
	)
	if !c.cfg.Generic && rng.IntN(3) == 0 {
		// Real batch writer.  PutBatch takes a map, so the member order is not under
		// control: all members get the same length, which makes the layout independent
		// of the order.  Member number i starts t bytes before the k-th border.
		mode = "putbatch-equal"
		i := 1 + rng.IntN(4)
		t := vf10PickTail(rng, w)
		k := 1
		for (k*w-t)/i-combinedDataOff < minLen+1 {
			k++
		}
		t += (k*w - t) % i // i*(38+l) == k*w-t exactly
		l := (k*w-t)/i - combinedDataOff
		first := newItem()
		d0, h0, hk, _ := vf10BuildExact(rng, first.addr, l, allKinds())
		first.variants[0], first.hdrLen[0] = d0, h0
		its, datas, stored, aims = append(its, first), append(datas, d0), append(stored, d0), append(aims, fmt.Sprintf("equal:i=%d,k=%d,t=%d", i, k, t))
		for n := i + rng.IntN(3); n > 0; n-- {
			it := newItem()
			d, h := vf10Build(rng, it.addr, hk, len(d0))
			if len(d) != len(d0) {
				continue
			}
			it.variants[0], it.hdrLen[0] = d, h
			its, datas, stored, aims = append(its, it), append(datas, d), append(stored, d), append(aims, "equal")
		}
	} else {
		m := 2 + rng.IntN(7)
		pos := 0          // file offset of the next member's prefix
		starts := []int{} // prefix starts of the members so far
		lastBig := 0      // offset right after the last member that is longer than a window
		for j := 0; j < m; j++ {
			it := newItem()
			starts = append(starts, pos)
			var data, st []byte
			var hl int
			aim := ""
			switch k := rng.IntN(100); {
			case k < 62: // aimed: the next prefix starts t bytes before anchor + k*w
				anchor := 0
				switch a := rng.IntN(10); {
				case a < 4:
					anchor = lastBig
				case a < 6:
					anchor = starts[rng.IntN(len(starts))]
				}
				t := vf10PickTail(rng, w)
				kk := 1
				for anchor+kk*w-t-pos-combinedDataOff < minLen {
					kk++
				}
				if rng.IntN(6) == 0 {
					kk += 1 + rng.IntN(2)
				}
				l := anchor + kk*w - t - pos - combinedDataOff
				var ok bool
				data, hl, _, ok = vf10BuildExact(rng, it.addr, l, allKinds())
				st = data
				aim = fmt.Sprintf("aimed:anchor=%d,k=%d,t=%d,exact=%v", anchor, kk, t, ok)
				if ok {
					c.r.Count("aligned_members_aimed_exactly", 1)
				}
			case k < 85: // free length, possibly stored compressed
				data, hl = vf10Build(rng, it.addr, rng.IntN(4), minLen+rng.IntN(3*w/2))
				st = data
				aim = "free"
				if rng.IntN(3) == 0 {
					st = vf10Enc.EncodeAll(data, nil)
					aim = "free-zstd"
				}
			default: // longer than a window
				data, hl = vf10Build(rng, it.addr, rng.IntN(4), w+1+rng.IntN(2*w))
				st = data
				aim = "big"
			}
			it.variants[0], it.hdrLen[0] = data, hl
			its, datas, stored, aims = append(its, it), append(datas, data), append(stored, st), append(aims, aim)
			pos += combinedDataOff + len(st)
			if len(st) >= w {
				lastBig = pos
			}
		}
	}

	lens := make([]int, len(its))
	slens := make([]int, len(its))
	for i := range its {
		lens[i], slens[i] = len(datas[i]), len(stored[i])
	}
	c.log("aligned-combined", its, lens, fmt.Sprintf("mode=%s window=%d stored-lens=%v aims=%v", mode, w, slens, aims))

	if mode == "planted" {
		if !c.plantCombined(its, stored) {
			return
		}
	} else {
		batch := make(map[oid.Address][]byte, len(its))
		for i, it := range its {
			batch[it.addr] = datas[i]
		}
		var err error
		if c.r.Guard(c.steps[len(c.steps)-1], func() { err = c.fs.PutBatch(batch) }) {
			c.bad = true
			return
		}
		if err != nil {
			c.violation("PutBatch", "error", its[0].addr, "batch put on a healthy store failed: "+err.Error())
			return
		}
	}
	for i, it := range its {
		c.model[it.addr] = datas[i]
		c.byAdr[it.addr] = it
	}
	defer func() {
		for _, it := range its {
			delete(c.byAdr, it.addr)
		}
	}()
	c.r.Count("aligned_files_"+mode, 1)
	c.r.Count("aligned_members", len(its))
	c.r.Seen("aligned_window_lengths", fmt.Sprint(w))
	c.groupStats(its)
	// what the layout really is (evidence only)
	for off, i := 0, 0; i < len(its); i++ {
		if i > 0 {
			if t := (w - off%w) % w; t < combinedDataOff+2 {
				c.r.Seen("aligned_prefix_starts_bytes_before_border", fmt.Sprint(t))
				if t > 0 && t < combinedDataOff {
					c.r.Count("aligned_prefixes_straddling_a_border", 1)
				}
				c.r.Distinct(fmt.Sprintf("%s|aligned|%s|w%d|t%d", c.cfg, mode, w, t))
			}
		}
		off += combinedDataOff + len(stored[i])
	}

	for _, it := range its {
		c.verify(it.addr, true)
		if c.bad {
			return
		}
		c.r.Seen("formats_on_disk", c.format(it.addr))
	}
	c.verifyIterations()

	// delete the members one by one (seeded order); the survivors keep their bytes
	order := rng.Perm(len(its))
	for n, oi := range order {
		it := its[oi]
		c.log("delete", []*vf10Item{it}, nil, fmt.Sprintf("aligned member, %d left", len(order)-n-1))
		var err error
		if c.r.Guard(c.steps[len(c.steps)-1], func() { err = c.fs.Delete(it.addr) }) {
			c.bad = true
			return
		}
		if err != nil {
			c.violation("Delete", "error-for-stored", it.addr, err.Error())
			return
		}
		delete(c.model, it.addr)
		c.r.Count("delete_ok", 1)
		c.verify(it.addr, true)
		left := order[n+1:]
		for s := 0; s < 2 && s < len(left); s++ {
			c.verify(its[left[rng.IntN(len(left))]].addr, true)
			c.r.Count("survivor_reads_after_aligned_member_delete", 1)
		}
		if c.bad {
			return
		}
	}
	c.verifyIterations()
}

// ---- multi-block compressed objects ------------------------------------------------------
//
// The streaming readers (Head, GetStream, ReadObject, ReadHeader) pre-read the first
// NonPayloadFieldsBufferLength bytes of what is on disk and, when that is a zstd frame,
// hand the pre-read prefix plus the rest of the file to a streaming decoder.  How much of
// the prefix the decoder has consumed when the API returns depends on where the blocks of
// the frame end (a decoder reads whole blocks) and on how the decoder is scheduled (lazily,
// block by block, when the process has one CPU; a bounded number of blocks ahead otherwise).
// The seeded zstd files of the main universe are either incompressible/half-compressible
// (the first block alone exceeds the prefix) or all zeros (the whole frame is tiny), so the
// bytes of a SECOND block never lay inside the pre-read prefix.  opZframes stores objects
// whose compressed form has a chosen length around and beyond the prefix length, a chosen
// compressibility (2:1 .. 30:1, so the first 128 KiB block ends anywhere inside or beyond
// the prefix) and a chosen block structure (one-shot encoding of three levels, or a frame of
// many blocks), through the real Put/PutBatch and as members of hand-built combined
// files, and reads them back through every API with all CPUs and with one CPU.
//
// Frames are kept to what a node's compressor produces in one respect: the first block
// carries at least NonPayloadFieldsBufferLength decompressed bytes (the one-shot encoder
// gives min(128 KiB, everything)); the readers take the header from the decoder's first
// output and the statement does not promise anything about foreign frame layouts.

var (
	vf10EncMu sync.Mutex
	vf10Encs  = map[zstd.EncoderLevel]*zstd.Encoder{}
)

func vf10EncOf(l zstd.EncoderLevel) *zstd.Encoder {
	vf10EncMu.Lock()
	defer vf10EncMu.Unlock()
	if e, ok := vf10Encs[l]; ok {
		return e
	}
	e, err := zstd.NewWriter(nil, zstd.WithEncoderLevel(l), zstd.WithEncoderConcurrency(1))
	if err != nil {
		panic("verif harness: zstd encoder: " + err.Error())
	}
	vf10Encs[l] = e
	return e
}

// vf10FrameShape describes how raw bytes become a zstd frame.
type vf10FrameShape struct {
	level  zstd.EncoderLevel
	blocks string // "" = one-shot (EncodeAll); otherwise the class of the piece lengths after the first piece
	first  int    // raw length of the first piece (>= NonPayloadFieldsBufferLength)
	seed   uint64 // piece lengths are drawn from this, so that re-encoding while aiming keeps the shape
}

func (s vf10FrameShape) String() string {
	if s.blocks == "" {
		return fmt.Sprintf("one-shot/%v", s.level)
	}
	return fmt.Sprintf("blocks:first>=NPFBL,then-%s/%v", s.blocks, s.level)
}

func (s vf10FrameShape) encode(raw []byte) []byte {
	enc := vf10EncOf(s.level)
	if s.blocks == "" {
		return enc.EncodeAll(raw, nil)
	}
	vf10EncMu.Lock()
	defer vf10EncMu.Unlock()
	var out bytes.Buffer
	enc.Reset(&out)
	prng := rand.New(rand.NewPCG(s.seed, 10))
	piece := s.first
	for len(raw) > 0 {
		n := min(piece, len(raw))
		_, _ = enc.Write(raw[:n])
		_ = enc.Flush() // ends the block
		raw = raw[n:]
		switch s.blocks {
		case "small":
			piece = 200 + prng.IntN(2800)
		case "medium":
			piece = 3000 + prng.IntN(17000)
		case "large":
			piece = 20000 + prng.IntN(111000)
		default: // mixed
			piece = []int{1 + prng.IntN(200), 200 + prng.IntN(2800), 3000 + prng.IntN(17000), 20000 + prng.IntN(111000)}[prng.IntN(4)]
		}
	}
	_ = enc.Close()
	return bytes.Clone(out.Bytes())
}

// vf10ZstdBlockEnds returns the offsets at which the blocks of the (first) zstd frame in b
// end (format of RFC 8878); nil if b cannot be walked.  Evidence only.
func vf10ZstdBlockEnds(b []byte) []int {
	if !vf10IsZstd(b) || len(b) < 6 {
		return nil
	}
	fhd := b[4]
	pos := 5
	single := fhd&0x20 != 0
	if !single {
		pos++ // window descriptor
	}
	pos += []int{0, 1, 2, 4}[fhd&3] // dictionary ID
	switch fhd >> 6 {               // frame content size
	case 0:
		if single {
			pos++
		}
	case 1:
		pos += 2
	case 2:
		pos += 4
	default:
		pos += 8
	}
	var ends []int
	for pos+3 <= len(b) {
		h := int(b[pos]) | int(b[pos+1])<<8 | int(b[pos+2])<<16
		pos += 3
		sz := h >> 3
		if (h>>1)&3 == 1 { // RLE block: one byte of content
			sz = 1
		}
		pos += sz
		if pos > len(b) {
			return nil
		}
		ends = append(ends, pos)
		if h&1 == 1 {
			break
		}
	}
	return ends
}

// vf10Compressible returns n bytes which zstd shrinks by roughly the given factor: cells of
// 64..512 bytes whose first 1/ratio is random and whose rest is one filler byte.
func vf10Compressible(rng *rand.Rand, n, ratio int) []byte {
	b := make([]byte, n)
	cell := 64 << rng.IntN(4)
	q := max(cell/ratio, 1)
	var fill byte
	if rng.IntN(2) == 0 {
		fill = byte(rng.Uint32())
	}
	for i := 0; i < n; i += cell {
		for j := 0; j < cell && i+j < n; j++ {
			if j < q {
				b[i+j] = byte(rng.Uint32())
			} else {
				b[i+j] = fill
			}
		}
	}
	return b
}

// vf10BuildZframe makes an object for addr and its compressed form of (about) wantComp bytes.
func vf10BuildZframe(rng *rand.Rand, addr oid.Address, wantComp int) (raw, comp []byte, hdrLen int, shape vf10FrameShape, ratio int) {
	const rawCap = 300 << 10
	ratio = []int{2, 4, 7, 7, 10, 10, 10, 16, 16, 30}[rng.IntN(10)]
	shape.level = []zstd.EncoderLevel{zstd.SpeedFastest, zstd.SpeedDefault, zstd.SpeedDefault, zstd.SpeedBetterCompression}[rng.IntN(4)]
	if rng.IntN(10) < 6 {
		shape.blocks = []string{"small", "small", "medium", "large", "mixed"}[rng.IntN(5)]
		shape.first = vf10NPFBL + []int{0, 1, rng.IntN(vf10NPFBL), rng.IntN(5 * vf10NPFBL)}[rng.IntN(4)]
		shape.seed = rng.Uint64()
	}
	hk := rng.IntN(4)
	pool := vf10Compressible(rng, rawCap, ratio)
	tailPool := verifkit.RandBytes(rng, 48<<10)
	bodyLen := min(wantComp*ratio, rawCap)
	tail := 64 + rng.IntN(200)
	build := func() {
		payload := append(bytes.Clone(pool[:bodyLen]), tailPool[:tail]...)
		obj, hl := vf10MkObj(addr, hk, len(payload))
		obj.SetPayload(payload)
		raw, hdrLen = obj.Marshal(), hl
		comp = shape.encode(raw)
	}
	for range 7 {
		build()
		d := wantComp - len(comp)
		if d == 0 {
			break
		}
		if d > 1500 || d < -1500 || tail+d < 0 || tail+d > len(tailPool) {
			// far off: scale the compressible body by the ratio observed
			nb := bodyLen + d*len(raw)/max(len(comp), 1)
			if nb = max(min(nb, rawCap), 0); nb != bodyLen {
				bodyLen = nb
				continue
			}
		}
		tail = max(min(tail+d, len(tailPool)), 0) // incompressible tail: one byte more or less on disk per byte
	}
	build()
	return
}

// withOneCPU runs f while the process is limited to one CPU, as on a single-CPU host
// (libraries pick their degree of concurrency from it when a reader is created).
func vf10WithOneCPU(f func()) {
	defer runtime.GOMAXPROCS(runtime.GOMAXPROCS(1))
	f()
}

func (c *vf10Case) opZframes() {
	if c.zrng == nil {
		return
	}
	saved := c.rng
	c.rng = c.zrng // own stream: the main history of the case does not depend on these objects
	defer func() { c.rng = saved }()
	rng := c.rng

	cnr := verifkit.RandCID(rng)
	newItem := func() *vf10Item {
		if rng.IntN(3) == 0 {
			cnr = verifkit.RandCID(rng)
		}
		return &vf10Item{addr: oid.NewAddress(cnr, verifkit.RandOID(rng))}
	}
	var (
		its    []*vf10Item
		datas  [][]byte
		stored [][]byte
		notes  []string
		zf     []bool
	)
	for range 2 {
		var want int
		switch k := rng.IntN(100); {
		case k < 5:
			want = vf10NPFBL - 1 - rng.IntN(40)
		case k < 13:
			want = vf10NPFBL
		case k < 21:
			want = vf10NPFBL + 1
		case k < 30:
			want = vf10NPFBL + 2 + rng.IntN(200)
		case k < 58:
			want = vf10NPFBL + rng.IntN(vf10NPFBL)
		case k < 67:
			want = 2*vf10NPFBL - 1 + rng.IntN(3)
		default:
			want = 2*vf10NPFBL + rng.IntN(3*vf10NPFBL)
		}
		it := newItem()
		raw, comp, hl, shape, ratio := vf10BuildZframe(rng, it.addr, want)
		it.variants[0], it.hdrLen[0] = raw, hl
		its, datas, stored, zf = append(its, it), append(datas, raw), append(stored, comp), append(zf, true)
		ends := vf10ZstdBlockEnds(comp)
		inside := 0
		for _, e := range ends {
			if e < vf10NPFBL {
				inside++
			}
		}
		notes = append(notes, fmt.Sprintf("%s ratio~%d raw=%d compressed=%d(aimed %d) blocks=%d ending-inside-first-%d=%d", shape, ratio, len(raw), len(comp), want, len(ends), vf10NPFBL, inside))
		c.r.Count("zframe_objects", 1)
		c.r.Seen("zframe_shapes", shape.String())
		c.r.Seen("zframe_compressed_length_classes", vf10LenClass(len(comp)))
		c.r.Seen("zframe_ratios", fmt.Sprint(ratio))
		c.r.Max("zframe_max_blocks", int64(len(ends)))
		if len(comp) >= vf10NPFBL { // the streaming decoder is used
			c.r.Count("zframe_streamed", 1)
			if inside > 0 && len(comp) > vf10NPFBL {
				c.r.Count("zframe_streamed_with_block_border_inside_preread_prefix", 1)
				c.r.Max("zframe_max_block_borders_inside_preread_prefix", int64(inside))
				if inside > 8 {
					c.r.Count("zframe_streamed_with_more_block_borders_inside_preread_prefix_than_a_decoder_reads_ahead", 1)
				}
			}
		}
	}
	mode := []string{"put", "put", "putbatch", "planted", "planted"}[rng.IntN(5)]
	if mode == "planted" {
		// members around them: small ones, and now and then one longer than the read window in front
		for n := rng.IntN(3); n > 0; n-- {
			it := newItem()
			l := 40 + rng.IntN(30000)
			if rng.IntN(4) == 0 {
				l = vf10NPFBL + 1 + rng.IntN(vf10NPFBL)
			}
			d, hl := vf10Build(rng, it.addr, rng.IntN(4), l)
			it.variants[0], it.hdrLen[0] = d, hl
			its, datas, stored, zf, notes = append(its, it), append(datas, d), append(stored, d), append(zf, false), append(notes, "filler")
		}
		rng.Shuffle(len(its), func(i, j int) {
			its[i], its[j] = its[j], its[i]
			datas[i], datas[j] = datas[j], datas[i]
			stored[i], stored[j] = stored[j], stored[i]
			zf[i], zf[j] = zf[j], zf[i]
			notes[i], notes[j] = notes[j], notes[i]
		})
	}
	lens := make([]int, len(its))
	for i := range its {
		lens[i] = len(datas[i])
	}
	c.log("zframes", its, lens, fmt.Sprintf("mode=%s %v", mode, notes))

	switch mode {
	case "planted":
		if !c.plantCombined(its, stored) {
			return
		}
	case "putbatch":
		batch := make(map[oid.Address][]byte, len(its))
		for i, it := range its {
			batch[it.addr] = stored[i]
		}
		var err error
		if c.r.Guard(c.steps[len(c.steps)-1], func() { err = c.fs.PutBatch(batch) }) {
			c.bad = true
			return
		}
		if err != nil {
			c.violation("PutBatch", "error", its[0].addr, "batch put on a healthy store failed: "+err.Error())
			return
		}
	default:
		for i, it := range its {
			var err error
			if c.r.Guard(c.steps[len(c.steps)-1], func() { err = c.fs.Put(it.addr, stored[i]) }) {
				c.bad = true
				return
			}
			if err != nil {
				c.violation("Put", "error", it.addr, "put of a healthy store failed: "+err.Error())
				return
			}
		}
	}
	for i, it := range its {
		c.model[it.addr] = datas[i]
		c.byAdr[it.addr] = it
	}
	defer func() {
		c.vsalt = 0
		for _, it := range its {
			delete(c.byAdr, it.addr)
		}
	}()
	c.r.Count("zframe_stores_"+mode, 1)
	c.groupStats(its)

	for i, it := range its {
		f, dl := c.formatLen(it.addr)
		c.r.Seen("formats_on_disk", f)
		if zf[i] {
			c.r.Seen("zframe_formats_on_disk", f)
			c.r.Distinct(fmt.Sprintf("%s|zframe|%s|%s|disk%s", c.cfg, mode, f, vf10LenClass(dl)))
		}
		// all CPUs the process has, then one CPU (other ways of draining the streams)
		c.vsalt = 0
		c.verify(it.addr, true)
		c.r.Count("zframe_reads_on_all_cpus", 1)
		c.r.Seen("zframe_gomaxprocs_during_reads", fmt.Sprint(runtime.GOMAXPROCS(0)))
		if c.bad {
			return
		}
		c.vsalt = 0x9e3779b97f4a7c15
		vf10WithOneCPU(func() {
			c.verify(it.addr, true)
			c.r.Seen("zframe_gomaxprocs_during_reads", fmt.Sprint(runtime.GOMAXPROCS(0)))
		})
		c.r.Count("zframe_reads_on_one_cpu", 1)
		if c.bad {
			return
		}
	}
	c.vsalt = 0
	c.verifyIterations()

	// delete them one by one (seeded order); the survivors keep their bytes
	order := rng.Perm(len(its))
	for n, oi := range order {
		it := its[oi]
		c.log("delete", []*vf10Item{it}, nil, fmt.Sprintf("zframes object, %d left", len(order)-n-1))
		var err error
		if c.r.Guard(c.steps[len(c.steps)-1], func() { err = c.fs.Delete(it.addr) }) {
			c.bad = true
			return
		}
		if err != nil {
			c.violation("Delete", "error-for-stored", it.addr, err.Error())
			return
		}
		delete(c.model, it.addr)
		c.r.Count("delete_ok", 1)
		c.verify(it.addr, true)
		if left := order[n+1:]; len(left) > 0 {
			s := its[left[rng.IntN(len(left))]]
			if rng.IntN(2) == 0 {
				vf10WithOneCPU(func() { c.verify(s.addr, true) })
			} else {
				c.verify(s.addr, true)
			}
			c.r.Count("survivor_reads_after_zframes_delete", 1)
		}
		if c.bad {
			return
		}
	}
	c.verifyIterations()
}

// opSmall runs n operations of the ordinary kinds whose addresses are mostly taken from the
// small part of the universe (own random stream), so that files and combined members
// shorter than the combined prefix are written in every on-disk format, share combined
// files with each other and with ordinary objects, lose members and are put again.
func (c *vf10Case) opSmall(n int) {
	if c.srng == nil || len(c.small) == 0 {
		return
	}
	saved := c.rng
	c.rng, c.bias = c.srng, c.small
	defer func() { c.rng, c.bias = saved, nil }()
	for j := 0; j < n && !c.bad; j++ {
		c.r.Count("small_burst_ops", 1)
		switch k := c.rng.IntN(100); {
		case k < 20:
			c.opSeedZstd()
		case k < 30:
			c.opSeedPlain()
		case k < 45:
			c.opSeedCombined()
		case k < 58:
			c.opPut()
		case k < 66:
			c.opPutConcurrent()
		case k < 80:
			c.opPutBatch()
		default:
			c.opDelete()
		}
	}
}

func (c *vf10Case) run(nOps int) {
	if c.cfg.Procs > 0 { // the whole case runs as on a host with that many CPUs
		defer runtime.GOMAXPROCS(runtime.GOMAXPROCS(c.cfg.Procs))
	}
	c.r.Seen("gomaxprocs_of_cases", fmt.Sprint(runtime.GOMAXPROCS(0)))
	c.open()
	defer func() { _ = c.fs.Close() }()
	c.vseed = c.rng.Uint64()
	c.genUniverse()
	c.genSmall(8)
	c.sweep() // empty store: everything not-found, iterations empty
	if !c.bad {
		c.opAligned()
	}
	c.opSmall(6)
	if !c.bad {
		c.opZframes()
	}
	for i := 0; i < nOps && !c.bad; i++ {
		switch k := c.rng.IntN(100); {
		case k < 22:
			c.opPut()
		case k < 36:
			c.opPutConcurrent()
		case k < 56:
			c.opPutBatch()
		case k < 82:
			c.opDelete()
		case k < 89:
			c.opSeedZstd()
		case k < 96:
			c.opSeedCombined()
		default:
			c.sweep()
		}
		if i%8 == 7 {
			c.sweep()
		}
		if i%16 == 11 && !c.bad {
			c.opAligned() // while other objects are stored
		}
		if i%16 == 3 {
			c.opSmall(4) // while other objects are stored
		}
		if i%max(c.zstep, 1) == 7 && !c.bad {
			c.opZframes() // while other objects are stored
		}
		c.r.Max("max_stored_at_once", int64(len(c.model)))
	}
	if !c.bad {
		c.sweep()
	}
	// final: delete everything, the store must end up empty for every view
	if !c.bad {
		addrs := make([]oid.Address, 0, len(c.model))
		for a := range c.model {
			addrs = append(addrs, a)
		}
		sort.Slice(addrs, func(i, j int) bool { return addrs[i].String() < addrs[j].String() })
		for _, a := range addrs {
			c.log("delete", []*vf10Item{c.byAdr[a]}, nil, "final")
			if err := c.fs.Delete(a); err != nil {
				c.violation("Delete", "error-for-stored", a, err.Error())
			}
			delete(c.model, a)
		}
		c.sweep()
	}
}

func vf10Configs(r *verifkit.Run) []vf10Cfg {
	var all []vf10Cfg
	for depth := uint64(0); depth <= 4; depth++ {
		for _, cnt := range []int{1, 2, 8, 128} {
			for _, lim := range []int{50 << 10, 8 << 20} {
				for _, thr := range []int{4 << 10, 30 << 10, 128 << 10} {
					for _, gen := range []bool{false, true} {
						all = append(all, vf10Cfg{Depth: depth, CountLimit: cnt, SizeLimit: lim, Threshold: thr, Generic: gen, NoSync: true, IntervalMs: 10})
					}
				}
			}
		}
	}
	return all
}

func TestVerif_C10(t *testing.T) {
	r := verifkit.Start(t, "C10", "exploration")
	defer r.Finish()
	r.SetRule("one case = one FSTree configuration (depth 0-4 x combined count limit 1/2/8/128 x size limit x threshold x linux/generic writer) with a seeded sequence of put / concurrent puts / PutBatch / delete / seeded zstd file / seeded combined file over 20 addresses (two byte variants each, lengths aimed at 38, NonPayloadFieldsBufferLength, twice that, the combined threshold and size limit, up to 256KiB), plus, at the start and every 16th step, a border-aligned combined file (hand-built or PutBatch of equal-length members; member lengths computed so that later prefixes start 0..39+ bytes before multiples of the 20480/40960/4096/32768-byte read window) whose members are read and then deleted one by one, and bursts of the same operations (plus hand-written uncompressed single files) over 8 more addresses holding small objects without ID whose raw or zstd length is aimed at 3..37, 38, 39 and a little more, or whose raw form is long while the zstd frame is shorter than the 38-byte combined prefix, and (at the start and every 16th step) two compressed objects whose zstd form is aimed at lengths around and beyond NonPayloadFieldsBufferLength with compressibility 2:1..30:1 and a chosen block structure (one-shot or many blocks after a first block of >= 20480 raw bytes), stored by Put/PutBatch or in a hand-built combined file and read through every API with all CPUs and with GOMAXPROCS=1 (a quarter of the cases runs entirely with GOMAXPROCS=1); after every step all read APIs are compared with a Go map; distinct = (configuration, op kind, on-disk format of the touched address, length class of the bytes, length class of what they occupy on disk)")
	r.Assume("an address is never re-put with different bytes while it is stored (content addressing); it may be re-put with other bytes after deletion")
	all := vf10Configs(r)
	nCfg := r.Pick(30, min(len(all), 120)) // thorough: half of the configurations per seed (the order is a seeded permutation), to stay inside the time budget on a loaded machine
	nOps := r.Pick(45, 120)
	zStep := r.Pick(16, 32) // 4 resp. 6 calls of opZframes per case (they are the most expensive steps)
	order := r.Rand("cfg-order", 0).Perm(len(all))
	for i := 0; i < nCfg; i++ {
		cfg := all[order[i%len(all)]]
		rng := r.Rand("case", i)
		// a few configurations run with fsync enabled and another flush interval
		if rng.IntN(6) == 0 {
			cfg.NoSync = false
		}
		if rng.IntN(3) == 0 {
			cfg.IntervalMs = 1 + rng.IntN(3)
		}
		if r.Rand("procs", i).IntN(4) == 0 {
			cfg.Procs = 1
		}
		c := &vf10Case{r: r, t: t, idx: i, cfg: cfg, rng: rng, arng: r.Rand("aligned", i), srng: r.Rand("small", i), zrng: r.Rand("zframes", i), zstep: zStep, model: map[oid.Address][]byte{}, byAdr: map[oid.Address]*vf10Item{}}
		r.Guard(map[string]any{"case": i, "cfg": cfg}, func() { c.run(nOps) })
		r.Eval(1)
		r.Count("steps_executed", len(c.steps))
		r.Seen("depths", fmt.Sprint(cfg.Depth))
		r.Seen("count_limits", fmt.Sprint(cfg.CountLimit))
		if i < 2 {
			n := min(len(c.steps), 12)
			r.Sample(map[string]any{"cfg": cfg, "first_steps": c.steps[:n]})
		}
	}
	if r.Counter("survivor_reads_after_member_delete") == 0 || r.Counter("seeded_zstd_files") == 0 || r.Counter("seeded_combined_files") == 0 {
		r.Inconclusive("workload never produced a shared combined file with a deleted member, or no compressed/combined seeded files")
	}
	for _, f := range []string{"plain", "zstd", "combined", "combined+zstd"} {
		if r.Violations() == 0 && r.Counter("stored_shorter_than_prefix_on_disk_"+f) == 0 {
			r.Inconclusive("workload never stored an object that occupies fewer bytes on disk than the combined prefix in format " + f)
		}
	}
	if r.Violations() == 0 && (r.Counter("zframe_streamed_with_block_border_inside_preread_prefix") == 0 || r.Counter("zframe_reads_on_one_cpu") == 0 || r.Counter("zframe_streamed_with_more_block_borders_inside_preread_prefix_than_a_decoder_reads_ahead") == 0) {
		r.Inconclusive("workload never streamed a compressed object of at least NonPayloadFieldsBufferLength compressed bytes whose first zstd blocks end inside the pre-read prefix (on one CPU and on all CPUs)")
	}
	if r.Violations() == 0 && (r.Counter("aligned_prefixes_straddling_a_border") == 0 || r.Counter("aligned_files_planted") == 0) {
		r.Inconclusive("workload never produced a combined file with a member prefix straddling a read-window border")
	}
}
