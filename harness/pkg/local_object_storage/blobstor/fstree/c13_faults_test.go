//go:build verif

package fstree

// C13 – a failing file-system call makes blob writes fail cleanly and never crashes.
//
// Fault enumeration: every workload (a seeded list of Put/PutBatch calls run by 1..16
// goroutines against the real FSTree with small batch limits) is first run without
// faults to count the calls of every fault site of hook commit H2
// (verifhook.Fault("fstree.<writer>.<syscall>") right after each syscall of the blob
// writers).  Then every single (site, k-th call) and a set of double injections is one
// case: the chosen calls are reported as failed (ENOSPC/EIO; for link and open the effect
// of the real call is undone, see notes/C13.md), the workload is joined, faults are
// switched off, 20 more writes follow and everything is read back.
//
// Short writes are made REAL: when a "*.short" site fires, the callback (which runs in the
// writing goroutine, for the shared batch with batchLock and the batch mutex held) cuts
// the bytes off the temporary file again (fstat/ftruncate/lseek on the descriptor), so
// the file holds a partial record exactly as after a partially accepted writev/write.
// The "script" family keeps batches open by logic instead of by the clock: the sync
// interval is one hour, the driver starts one Put after the other (the next one when the
// previous one passed its write step or returned) and plays the timer itself (calls the
// timer function of the open batch at seeded steps) – so writes that follow a failed one
// land in the same batch window whatever the machine load is.
//
// Each case runs in a child process.  A child works through a list of cases and logs
// "start i"/"done i"; when it dies (panic, fatal error) or proves a deadlock, the parent
// attributes that to the case in progress and starts a new child for the rest.

import (
	"bytes"
	"encoding/json"
	"errors"
	"fmt"
	"math/rand/v2"
	"os"
	"path/filepath"
	"runtime"
	"sort"
	"strconv"
	"strings"
	"sync"
	"sync/atomic"
	"syscall"
	"testing"
	"time"

	"github.com/nspcc-dev/neofs-node/internal/verifhook"
	"github.com/nspcc-dev/neofs-node/internal/verifkit"
	"github.com/nspcc-dev/neofs-node/pkg/local_object_storage/blobstor/common"
	oid "github.com/nspcc-dev/neofs-sdk-go/object/id"
	"golang.org/x/sys/unix"
)

type vf13Cfg struct {
	Generic    bool   `json:"generic,omitempty"`
	Depth      uint64 `json:"depth"`
	NoSync     bool   `json:"nosync,omitempty"`
	CountLimit int    `json:"count_limit"`
	SizeLimit  int    `json:"size_limit"`
	Threshold  int    `json:"threshold"`
	IntervalMs int    `json:"interval_ms"`
}

type vf13Obj struct {
	A, B    uint64
	Payload int
}

// vf13Item is one client call: Put of one object, or PutBatch of several.
type vf13Item struct {
	Objs  []int `json:"o"`
	Batch bool  `json:"batch,omitempty"`
}

type vf13Workload struct {
	Family string     `json:"family"`
	Cfg    vf13Cfg    `json:"cfg"`
	Objs   []vf13Obj  `json:"objs"`
	Items  []vf13Item `json:"items"`
	Conc   int        `json:"conc"`
	Post   []vf13Obj  `json:"post"`
	// Script: calls are started one after the other by the driver (logical batch window,
	// see vf13RunScript); Flush lists the items after which the driver plays the sync timer.
	Script bool  `json:"script,omitempty"`
	Flush  []int `json:"flush,omitempty"`
}

type vf13Fault struct {
	Site  string `json:"site"`
	K     int    `json:"k"`
	Errno int    `json:"errno"`
	// Cut (only "*.short" sites): how much of the record just written is really missing
	// from the file: 0 = one byte, 1..1000 = that many permille of the record (at least one byte).
	Cut int `json:"cut,omitempty"`
}

type vf13Case struct {
	Idx    int         `json:"idx"`
	W      int         `json:"w"`
	Faults []vf13Fault `json:"faults"`
}

type vf13Chunk struct {
	Base      string         `json:"base"`
	Results   string         `json:"results"`
	Workloads []vf13Workload `json:"workloads"`
	Cases     []vf13Case     `json:"cases"`
}

type vf13Viol struct {
	Key  string `json:"key"`
	What string `json:"what"`
}

type vf13Result struct {
	Start      *int           `json:"start,omitempty"`
	Done       *int           `json:"done,omitempty"`
	Outcome    string         `json:"outcome,omitempty"` // ok | deadlock | hang
	Detail     string         `json:"detail,omitempty"`
	Viol       []vf13Viol     `json:"viol,omitempty"`
	Sites      map[string]int `json:"sites,omitempty"`
	Fired      []string       `json:"fired,omitempty"`
	PutsOK     int            `json:"puts_ok"`
	PutsErr    int            `json:"puts_err"`
	Unaffected int            `json:"unaffected"`
	PostOK     int            `json:"post_ok"`
	ErrReadOK  int            `json:"err_but_readable"`
	ErrShapes  []string       `json:"err_shapes,omitempty"`
	RotWriter  int            `json:"rot_writer"`
	RotTimer   int            `json:"rot_timer"`
	Batches    int            `json:"batches"`
	ShortReal  map[string]int `json:"short_real,omitempty"` // write path -> short writes whose bytes were really cut off
	ShortFake  int            `json:"short_fake,omitempty"` // short writes where only the reported count was lowered
	TimerFires int            `json:"timer_fires,omitempty"`
	ScriptStep int            `json:"script_steps,omitempty"`
}

const vf13ExitInterrupted = 7 // child proved a deadlock / gave up on a hang: its goroutines are stuck, parent restarts

func vf13Open(dir string, c vf13Cfg) (*FSTree, error) {
	t := New(WithPath(dir), WithDepth(c.Depth), WithPerm(0o700), WithNoSync(c.NoSync),
		WithCombinedCountLimit(c.CountLimit), WithCombinedSizeLimit(c.SizeLimit),
		WithCombinedSizeThreshold(c.Threshold), WithCombinedWriteInterval(time.Duration(c.IntervalMs)*time.Millisecond))
	if err := t.Open(false); err != nil {
		return nil, err
	}
	if err := t.Init(common.ID{}); err != nil {
		return nil, err
	}
	if c.Generic {
		t.writer = newGenericWriter(t.Permissions, t.noSync)
	}
	return t, nil
}

func vf13Make(o vf13Obj) (oid.Address, []byte) {
	rng := rand.New(rand.NewPCG(o.A, o.B))
	obj := verifkit.NewObject(rng, verifkit.RandCID(rng), verifkit.RandUser(rng), o.Payload)
	return verifkit.Addr(obj), obj.Marshal()
}

// ---------------------------------------------------------------- child

type vf13Ctl struct {
	mu      sync.Mutex
	calls   map[string]int
	plan    map[string]map[int]vf13Fault // site -> k -> fault
	fired   []string
	firedAt []int64
	clock   atomic.Int64
	hits    atomic.Int64
	rotW    atomic.Int64
	rotT    atomic.Int64
	opens   atomic.Int64
	// generic writer (sequential families only): path of the write in flight, to undo an injected rename failure
	curPath atomic.Pointer[string]

	// real short writes
	lw        *linuxWriter
	root      string       // resolved root path as the kernel prints it in /proc/self/fd
	seq       bool         // at most one call is in its write step at any time (sequential and script families)
	preShared atomic.Int64 // size of the shared batch file before the writev in progress (writer holds batchLock)
	fdBefore  map[int]bool // seq only: O_TMPFILE descriptors that existed before the private file/batch was opened
	privFd    int          // seq only: descriptor of the private temporary file being written, -1 unknown
	prePriv   int64        // seq only: its size before the write in progress
	shortReal map[string]int
	shortFake int
	fires     atomic.Int64
	// script family
	stepArmed atomic.Bool
	stepCh    chan struct{}
}

func (c *vf13Ctl) fault(site string) error {
	c.hits.Add(1)
	c.mu.Lock()
	defer c.mu.Unlock()
	c.calls[site]++
	k := c.calls[site]
	f, ok := c.plan[site][k]
	if !ok {
		return nil
	}
	tag := site
	if vf13InTimer() {
		tag += "@timer"
	}
	c.fired = append(c.fired, tag)
	c.firedAt = append(c.firedAt, c.clock.Add(1))
	if site == "fstree.generic.rename" {
		// make the file system match the reported failure: the renamed file is taken away again
		if p := c.curPath.Load(); p != nil {
			_ = os.Remove(*p)
		}
	}
	if strings.HasSuffix(site, ".short") {
		// make the file match the reported short count: the tail of the record is cut off again
		if path := c.cutTail(f.Cut); path != "" {
			c.shortReal[path]++
		} else {
			c.shortFake++
		}
	}
	return syscall.Errno(f.Errno)
}

// cutTail removes the last bytes of the record that the calling goroutine has just
// written to its temporary file (the injected short count becomes a real partial write).
// It only uses descriptors the calling goroutine owns at this moment: the shared batch
// (the caller is inside writeCombinedFile and holds batchLock and the batch mutex) or, in
// families with one write at a time, the private temporary file found at the preceding
// hook point.  Returns the write path, "" when nothing was cut (count-only short write).
// No file-system call of the code under test is involved, c.mu may stay locked.
func (c *vf13Ctl) cutTail(cut int) string {
	path := vf13WritePath()
	fd, pre := -1, int64(0)
	switch path {
	case "combined":
		if c.lw != nil && c.lw.batch != nil {
			fd, pre = c.lw.batch.fd, c.preShared.Load()
		}
	case "batch", "file":
		if c.seq {
			fd, pre = c.privFd, c.prePriv
		}
	}
	if fd < 0 || pre < 0 {
		return ""
	}
	var st unix.Stat_t
	if unix.Fstat(fd, &st) != nil {
		return ""
	}
	off, err := unix.Seek(fd, 0, 1)
	n := st.Size - pre
	if err != nil || off != st.Size || n <= 0 {
		return "" // not the state expected right after an appending write: leave it alone
	}
	d := int64(1)
	if cut > 0 {
		d = min(max(n*int64(cut)/1000, 1), n)
	}
	if unix.Ftruncate(fd, st.Size-d) != nil {
		return ""
	}
	if _, err := unix.Seek(fd, -d, 1); err != nil {
		return ""
	}
	return path
}

// vf13WritePath tells which writer function the calling goroutine is in.
func vf13WritePath() string {
	var pcs [32]uintptr
	n := runtime.Callers(2, pcs[:])
	fr := runtime.CallersFrames(pcs[:n])
	for {
		f, more := fr.Next()
		switch {
		case strings.HasSuffix(f.Function, "(*linuxWriter).writeCombinedFile"):
			return "combined"
		case strings.HasSuffix(f.Function, "(*linuxWriter).writeBatch"):
			return "batch"
		case strings.HasSuffix(f.Function, "(*linuxWriter).writeFile"):
			return "file"
		}
		if !more {
			return ""
		}
	}
}

// vf13TmpFds lists the descriptors of this process that refer to unlinked (O_TMPFILE) files of the tree.
func vf13TmpFds(root string) map[int]bool {
	m := map[int]bool{}
	ents, err := os.ReadDir("/proc/self/fd")
	if err != nil {
		return m
	}
	for _, e := range ents {
		n, err := strconv.Atoi(e.Name())
		if err != nil {
			continue
		}
		if tgt, err := os.Readlink("/proc/self/fd/" + e.Name()); err == nil && strings.HasPrefix(tgt, root+"/#") {
			m[n] = true
		}
	}
	return m
}

// notePrivate finds the private temporary file opened since the last snapshot (seq families only).
func (c *vf13Ctl) notePrivate() {
	c.privFd, c.prePriv = -1, -1
	var cand []int
	for fd := range vf13TmpFds(c.root) {
		if !c.fdBefore[fd] {
			cand = append(cand, fd)
		}
	}
	if len(cand) != 1 {
		return
	}
	var st unix.Stat_t
	if unix.Fstat(cand[0], &st) == nil {
		c.privFd, c.prePriv = cand[0], st.Size
	}
}

func (c *vf13Ctl) point(name string) {
	c.hits.Add(1)
	switch name {
	case "fstree.linux.batch.close.before":
		if vf13InTimer() {
			c.rotT.Add(1)
		} else {
			c.rotW.Add(1)
		}
	case "fstree.linux.batch.open.before":
		c.opens.Add(1)
		if c.seq && vf13WritePath() == "batch" {
			c.mu.Lock()
			c.fdBefore = vf13TmpFds(c.root)
			c.mu.Unlock()
		}
	case "fstree.linux.file.open.before":
		if c.seq {
			c.mu.Lock()
			c.fdBefore = vf13TmpFds(c.root)
			c.mu.Unlock()
		}
	case "fstree.linux.file.write.before":
		if c.seq {
			c.mu.Lock()
			c.notePrivate()
			c.mu.Unlock()
		}
	case "fstree.linux.batch.writev.before":
		switch vf13WritePath() {
		case "combined": // the caller holds batchLock and the batch mutex
			c.preShared.Store(-1)
			if c.lw != nil && c.lw.batch != nil {
				var st unix.Stat_t
				if unix.Fstat(c.lw.batch.fd, &st) == nil {
					c.preShared.Store(st.Size)
				}
			}
		case "batch":
			if c.seq {
				c.mu.Lock()
				c.notePrivate()
				c.mu.Unlock()
			}
		}
	case "fstree.linux.batch.linkat.after":
		if c.stepArmed.Load() {
			select {
			case c.stepCh <- struct{}{}:
			default:
			}
		}
	}
}

// fireTimer plays the sync timer of the currently open shared batch: it calls the very
// function the timer would call, from a goroutine that holds no writer lock.
func (c *vf13Ctl) fireTimer() {
	c.lw.batchLock.Lock()
	sb := c.lw.batch
	c.lw.batchLock.Unlock()
	if sb != nil {
		c.fires.Add(1)
		sb.sync()
	}
}

func vf13InTimer() bool {
	var pcs [24]uintptr
	n := runtime.Callers(3, pcs[:])
	fr := runtime.CallersFrames(pcs[:n])
	for {
		f, more := fr.Next()
		if strings.HasSuffix(f.Function, "(*syncBatch).sync") {
			return true
		}
		if !more {
			return false
		}
	}
}

func vf13Child(t *testing.T, specPath string) {
	b, err := os.ReadFile(specPath)
	if err != nil {
		t.Fatalf("child: %v", err)
	}
	var ch vf13Chunk
	if err := json.Unmarshal(b, &ch); err != nil {
		t.Fatalf("child: %v", err)
	}
	out, err := os.OpenFile(ch.Results, os.O_CREATE|os.O_WRONLY|os.O_APPEND, 0o644)
	if err != nil {
		t.Fatalf("child: %v", err)
	}
	emit := func(r vf13Result) {
		l, _ := json.Marshal(r)
		_, _ = out.Write(append(l, '\n'))
	}
	for _, cs := range ch.Cases {
		idx := cs.Idx
		emit(vf13Result{Start: &idx})
		res := vf13RunCase(filepath.Join(ch.Base, fmt.Sprintf("case-%d", idx)), ch.Workloads[cs.W], cs)
		res.Done = &idx
		emit(res)
		_ = os.RemoveAll(filepath.Join(ch.Base, fmt.Sprintf("case-%d", idx)))
		if res.Outcome != "ok" {
			_ = out.Close()
			os.Exit(vf13ExitInterrupted)
		}
	}
	_ = out.Close()
}

type vf13Put struct {
	item     int
	c0, c1   int64
	err      error
	returned bool
}

func vf13RunCase(dir string, w vf13Workload, cs vf13Case) (res vf13Result) {
	res.Outcome = "ok"
	viol := func(key, what string) { res.Viol = append(res.Viol, vf13Viol{key, what}) }
	fst, err := vf13Open(dir, w.Cfg)
	if err != nil {
		res.Outcome = "hang"
		res.Detail = "harness: cannot open FSTree: " + err.Error()
		return
	}
	lw, _ := fst.writer.(*linuxWriter)
	if lw == nil && !w.Cfg.Generic {
		res.Outcome = "hang"
		res.Detail = "harness: O_TMPFILE writer unavailable"
		return
	}
	addrs := make([]oid.Address, len(w.Objs))
	datas := make([][]byte, len(w.Objs))
	for i, o := range w.Objs {
		addrs[i], datas[i] = vf13Make(o)
	}
	ctl := &vf13Ctl{calls: map[string]int{}, plan: map[string]map[int]vf13Fault{}, lw: lw, root: fst.RootPath,
		seq: w.Script || max(w.Conc, 1) == 1, privFd: -1, shortReal: map[string]int{}, stepCh: make(chan struct{}, 1)}
	if rp, err := filepath.EvalSymlinks(fst.RootPath); err == nil {
		if rp, err = filepath.Abs(rp); err == nil {
			ctl.root = rp
		}
	}
	for _, f := range cs.Faults {
		if ctl.plan[f.Site] == nil {
			ctl.plan[f.Site] = map[int]vf13Fault{}
		}
		ctl.plan[f.Site][f.K] = f
	}
	verifhook.SetFault(ctl.fault)
	verifhook.SetPoint(ctl.point)
	defer verifhook.SetFault(nil)
	defer verifhook.SetPoint(nil)
	prog := func() int64 { return ctl.hits.Load() + ctl.clock.Load() }

	// ---- phase 1: the workload under faults
	puts := make([]vf13Put, len(w.Items))
	next := atomic.Int64{}
	var wg sync.WaitGroup
	conc := max(w.Conc, 1)
	if w.Script {
		conc = 0 // the driver below starts the calls
	}
	for g := 0; g < conc; g++ {
		wg.Add(1)
		go func() {
			defer wg.Done()
			for {
				i := int(next.Add(1)) - 1
				if i >= len(w.Items) {
					return
				}
				it := w.Items[i]
				p := &puts[i]
				p.item = i
				if it.Batch {
					m := map[oid.Address][]byte{}
					for _, o := range it.Objs {
						m[addrs[o]] = datas[o]
					}
					ctl.curPath.Store(nil)
					p.c0 = ctl.clock.Add(1)
					p.err = fst.PutBatch(m)
				} else {
					o := it.Objs[0]
					if conc == 1 {
						pp := fst.treePath(addrs[o])
						ctl.curPath.Store(&pp)
					}
					p.c0 = ctl.clock.Add(1)
					p.err = fst.Put(addrs[o], datas[o])
				}
				p.c1 = ctl.clock.Add(1)
				p.returned = true
			}
		}()
	}
	done := make(chan struct{})
	if !w.Script {
		go func() { wg.Wait(); close(done) }()
	}
	firedSites := func() string {
		ctl.mu.Lock()
		defer ctl.mu.Unlock()
		m := map[string]bool{}
		for _, f := range ctl.fired {
			m[strings.TrimSuffix(f, "@timer")] = true
		}
		if m["fstree.linux.batch.open"] {
			return "failed-batch-open" // the one call after which writeCombinedFile returns with the lock held
		}
		l := []string{}
		for s := range m {
			l = append(l, s)
		}
		sort.Strings(l)
		return strings.Join(l, "+")
	}
	sitesDone := false
	collect := func() {
		ctl.mu.Lock()
		res.Fired = append([]string(nil), ctl.fired...)
		if !sitesDone { // fault-site calls of the workload phase only (what the enumeration ranges over)
			sitesDone = true
			res.Sites = map[string]int{}
			for k, v := range ctl.calls {
				res.Sites[k] = v
			}
		}
		res.ShortReal = map[string]int{}
		for k, v := range ctl.shortReal {
			res.ShortReal[k] = v
		}
		res.ShortFake = ctl.shortFake
		ctl.mu.Unlock()
		res.RotWriter, res.RotTimer, res.Batches = int(ctl.rotW.Load()), int(ctl.rotT.Load()), int(ctl.opens.Load())
		res.TimerFires = int(ctl.fires.Load())
	}
	scriptOutcome, scriptDetail := "ok", ""
	if w.Script {
		flush := map[int]bool{}
		for _, i := range w.Flush {
			flush[i] = true
		}
		scriptOutcome, scriptDetail = vf13RunScript(ctl, lw, prog, len(w.Items), func(i int) bool { return !w.Items[i].Batch }, func(i int) bool { return flush[i] },
			func(i int) {
				it := w.Items[i]
				p := &puts[i]
				p.item = i
				p.c0 = ctl.clock.Add(1)
				if it.Batch {
					m := map[oid.Address][]byte{}
					for _, o := range it.Objs {
						m[addrs[o]] = datas[o]
					}
					p.err = fst.PutBatch(m)
				} else {
					p.err = fst.Put(addrs[it.Objs[0]], datas[it.Objs[0]])
				}
				p.c1 = ctl.clock.Add(1)
				p.returned = true
			})
		res.ScriptStep += len(w.Items)
		close(done)
	}
	if oc, detail := vf13Await(done, prog, lw); oc != "ok" || scriptOutcome != "ok" {
		if oc == "ok" {
			oc, detail = scriptOutcome, scriptDetail
		}
		collect()
		res.Outcome, res.Detail = oc, detail
		if oc == "deadlock" {
			viol("deadlock|"+strings.SplitN(detail, "\n", 2)[0]+"|phase=workload|after="+firedSites(), "writes never return: every goroutine inside the blob writer is parked on a writer mutex that no running goroutine holds")
		}
		return
	}
	collect()
	ctl.mu.Lock()
	firedAt := append([]int64(nil), ctl.firedAt...)
	ctl.plan = map[string]map[int]vf13Fault{} // faults off
	ctl.mu.Unlock()
	ctl.curPath.Store(nil)

	// ---- oracle on the returned results
	shapes := map[string]bool{}
	for i := range puts {
		p := &puts[i]
		if p.err == nil {
			res.PutsOK++
		} else {
			res.PutsErr++
			shapes[vf13ErrShape(p.err)] = true
		}
		affected := false
		for _, f := range firedAt {
			if f > p.c0 && f < p.c1 {
				affected = true
			}
		}
		if !affected {
			res.Unaffected++
			if p.err != nil {
				viol(fmt.Sprintf("unaffected-write-failed|%s|%s", w.Family, vf13ErrShape(p.err)), fmt.Sprintf("call %d (objects %v) failed with %v although no injected failure happened between its start and its return", i, w.Items[i].Objs, p.err))
			}
		}
	}
	for s := range shapes {
		res.ErrShapes = append(res.ErrShapes, s)
	}
	sort.Strings(res.ErrShapes)
	readBack := func(tr *FSTree, when string) {
		for i := range puts {
			for _, o := range w.Items[i].Objs {
				got, err := tr.GetBytes(addrs[o])
				switch {
				case err == nil && !bytes.Equal(got, datas[o]):
					viol(fmt.Sprintf("wrong-bytes|%s|%s", w.Family, when), fmt.Sprintf("object %d reads back %d bytes that differ from the %d written (call returned %v)", o, len(got), len(datas[o]), puts[i].err))
				case err != nil && puts[i].err == nil:
					viol(fmt.Sprintf("success-but-unreadable|%s|%s|after=%s", w.Family, when, firedSites()), fmt.Sprintf("call %d reported success for object %d which cannot be read back: %v", i, o, err))
				case err == nil && puts[i].err != nil && when == "live":
					res.ErrReadOK++
				}
			}
		}
	}
	readBack(fst, "live")

	// ---- phase 2: faults are off, 20 more writes must succeed (half sequential, half concurrent)
	paddrs := make([]oid.Address, len(w.Post))
	pdatas := make([][]byte, len(w.Post))
	perrs := make([]error, len(w.Post))
	for i, o := range w.Post {
		paddrs[i], pdatas[i] = vf13Make(o)
	}
	done2 := make(chan struct{})
	if w.Script {
		// the batch window is logical in this family: one write after the other, the driver plays the timer
		scriptOutcome, scriptDetail = vf13RunScript(ctl, lw, prog, len(w.Post), func(int) bool { return true }, func(i int) bool { return i%3 == 2 },
			func(i int) {
				ctl.clock.Add(1)
				perrs[i] = fst.Put(paddrs[i], pdatas[i])
			})
		res.ScriptStep += len(w.Post)
		close(done2)
	}
	go func() {
		if w.Script {
			return
		}
		defer close(done2)
		half := len(w.Post) / 2
		for i := 0; i < half; i++ {
			ctl.clock.Add(1)
			perrs[i] = fst.Put(paddrs[i], pdatas[i])
		}
		var wg2 sync.WaitGroup
		for i := half; i < len(w.Post); i++ {
			wg2.Add(1)
			go func() {
				defer wg2.Done()
				ctl.clock.Add(1)
				perrs[i] = fst.Put(paddrs[i], pdatas[i])
			}()
		}
		wg2.Wait()
	}()
	if oc, detail := vf13Await(done2, prog, lw); oc != "ok" || scriptOutcome != "ok" {
		if oc == "ok" {
			oc, detail = scriptOutcome, scriptDetail
		}
		collect()
		res.Outcome, res.Detail = oc, detail
		if oc == "deadlock" {
			viol("deadlock|"+strings.SplitN(detail, "\n", 2)[0]+"|phase=later-writes|after="+firedSites(), "after the injected failure later writes never return: every goroutine inside the blob writer is parked on a writer mutex that no running goroutine holds")
		}
		return
	}
	for i := range w.Post {
		if perrs[i] != nil {
			viol(fmt.Sprintf("later-write-failed|%s|%s|after=%s", w.Family, vf13ErrShape(perrs[i]), firedSites()), fmt.Sprintf("write %d issued after the failures stopped returns %v", i, perrs[i]))
			continue
		}
		got, err := fst.GetBytes(paddrs[i])
		if err != nil || !bytes.Equal(got, pdatas[i]) {
			viol(fmt.Sprintf("later-write-unreadable|%s|after=%s", w.Family, firedSites()), fmt.Sprintf("write %d issued after the failures stopped is not readable: err=%v", i, err))
			continue
		}
		res.PostOK++
	}

	// ---- shutdown must not hang either
	done3 := make(chan struct{})
	go func() { defer close(done3); _ = fst.Close() }()
	if oc, detail := vf13Await(done3, prog, lw); oc != "ok" {
		collect()
		res.Outcome, res.Detail = oc, detail
		if oc == "deadlock" {
			viol("deadlock|"+strings.SplitN(detail, "\n", 2)[0]+"|phase=close|after="+firedSites(), "Close never returns after the injected failure")
		}
		return
	}
	if fst2, err := vf13Open(dir, w.Cfg); err == nil {
		readBack(fst2, "reopened")
		_ = fst2.Close()
	}
	collect()
	return
}

// vf13RunScript starts n calls one after the other: call i+1 is started when call i has
// passed its write step (hook point after the link of a combined write; armed(i) tells
// whether that point belongs to call i alone) or has returned.  After the calls for which
// flush(i) holds and after the last one the driver plays the sync timer of the open
// batch.  Then it waits for all calls.  Nothing depends on the clock: the configured sync
// interval of the family is an hour.
func vf13RunScript(ctl *vf13Ctl, lw *linuxWriter, prog func() int64, n int, armed, flush func(int) bool, call func(int)) (string, string) {
	var wg sync.WaitGroup
	await := func(f func()) (string, string) {
		d := make(chan struct{})
		go func() { defer close(d); f() }()
		return vf13Await(d, prog, lw)
	}
	for i := 0; i < n; i++ {
		select {
		case <-ctl.stepCh:
		default:
		}
		ctl.stepArmed.Store(armed(i))
		ret := make(chan struct{})
		wg.Add(1)
		go func() {
			defer wg.Done()
			defer close(ret)
			call(i)
		}()
		if oc, detail := await(func() {
			select {
			case <-ctl.stepCh:
			case <-ret:
			}
		}); oc != "ok" {
			return oc, detail
		}
		ctl.stepArmed.Store(false)
		if flush(i) || i == n-1 {
			if oc, detail := await(ctl.fireTimer); oc != "ok" {
				return oc, detail
			}
		}
	}
	return await(wg.Wait)
}

// vf13Await waits for done.  When nothing at all moved for a while (no hook passed, no
// call started or returned) it looks at the goroutines: if every goroutine that is inside
// the blob writer is parked in sync.Mutex.Lock and none is in any other state, no one can
// ever release those (writer-private) mutexes – a deadlock proven from the state, not
// from the clock.  Anything else that does not move for a minute is reported as "hang"
// (inconclusive).
func vf13Await(done <-chan struct{}, prog func() int64, lw *linuxWriter) (string, string) {
	last, idle := prog(), 0
	tick := time.NewTicker(25 * time.Millisecond)
	defer tick.Stop()
	for {
		select {
		case <-done:
			return "ok", ""
		case <-tick.C:
		}
		if p := prog(); p != last {
			last, idle = p, 0
			continue
		}
		idle++
		if idle < 12 || idle%4 != 0 {
			continue
		}
		b1, a1, dump := vf13Writers()
		if len(b1) > 0 && len(a1) == 0 {
			time.Sleep(40 * time.Millisecond)
			b2, a2, _ := vf13Writers()
			select {
			case <-done:
				return "ok", ""
			default:
			}
			if prog() == last && len(a2) == 0 && strings.Join(b1, ",") == strings.Join(b2, ",") {
				held := "writer-mutex-never-released"
				if lw != nil {
					if lw.batchLock.TryLock() {
						lw.batchLock.Unlock()
					} else {
						held = "batchLock-never-released"
					}
				}
				return "deadlock", held + "\n" + dump
			}
		}
		if idle > 2400 {
			return "hang", "no progress for 60 s, not a provable mutex deadlock\n" + dump
		}
	}
}

// vf13Writers lists the goroutines that are inside the blob writers: those parked in
// Mutex.Lock (ids) and those in any other state.
func vf13Writers() (blocked, active []string, dump string) {
	buf := make([]byte, 1<<20)
	buf = buf[:runtime.Stack(buf, true)]
	var sb strings.Builder
	for _, g := range strings.Split(string(buf), "\n\n") {
		if !strings.Contains(g, "fstree.(*linuxWriter).") && !strings.Contains(g, "fstree.(*syncBatch).") && !strings.Contains(g, "fstree.(*genericWriter).") {
			continue
		}
		if strings.Contains(g, "vf13Writers") {
			continue
		}
		head, _, _ := strings.Cut(g, "\n")
		id, st, _ := strings.Cut(strings.TrimPrefix(head, "goroutine "), " ")
		st = strings.Trim(st, "[]:")
		if strings.HasPrefix(st, "sync.Mutex.Lock") || strings.HasPrefix(st, "semacquire") {
			blocked = append(blocked, id)
		} else {
			active = append(active, id+":"+st)
		}
		if sb.Len() < 6000 {
			sb.WriteString(g)
			sb.WriteString("\n\n")
		}
	}
	sort.Strings(blocked)
	return blocked, active, sb.String()
}

func vf13ErrShape(err error) string {
	s := err.Error()
	var sb strings.Builder
	inq := false
	for _, c := range s {
		switch {
		case c == '"':
			inq = !inq
			if inq {
				sb.WriteString("\"…\"")
			}
		case inq:
		case c >= '0' && c <= '9':
		default:
			sb.WriteRune(c)
		}
	}
	out := sb.String()
	if i := strings.Index(out, "/"); i >= 0 { // unquoted paths
		out = out[:i] + "…"
	}
	if len(out) > 100 {
		out = out[:100]
	}
	return out
}

// ---------------------------------------------------------------- parent

func vf13Workloads(r *verifkit.Run) []vf13Workload {
	var ws []vf13Workload
	mk := func(rng *rand.Rand, fam string, cfg vf13Cfg, n, conc int, size func(i int) int, batchEvery int) vf13Workload {
		w := vf13Workload{Family: fam, Cfg: cfg, Conc: conc}
		for i := 0; i < n; i++ {
			if batchEvery > 0 && i%batchEvery == batchEvery-1 {
				it := vf13Item{Batch: true}
				for j, m := 0, 1+rng.IntN(8); j < m; j++ {
					w.Objs = append(w.Objs, vf13Obj{rng.Uint64(), rng.Uint64(), size(i)})
					it.Objs = append(it.Objs, len(w.Objs)-1)
				}
				w.Items = append(w.Items, it)
				continue
			}
			w.Objs = append(w.Objs, vf13Obj{rng.Uint64(), rng.Uint64(), size(i)})
			w.Items = append(w.Items, vf13Item{Objs: []int{len(w.Objs) - 1}})
		}
		for i := 0; i < 20; i++ {
			pl := 30 + rng.IntN(300)
			if i%7 == 3 {
				pl = cfg.Threshold + 100 + rng.IntN(500)
			}
			w.Post = append(w.Post, vf13Obj{rng.Uint64(), rng.Uint64(), pl})
		}
		return w
	}
	rounds := r.Pick(2, 5)
	for rd := 0; rd < rounds; rd++ {
		rng := r.Rand("workloads", rd)
		small := func(int) int { return 20 + rng.IntN(300) }
		// every write crosses the size limit on its own: the writer closes the batch right after the write
		ws = append(ws, mk(rng, "size-limit-each-write-seq", vf13Cfg{Depth: 1, CountLimit: 128, SizeLimit: 256, Threshold: 4096, IntervalMs: 2, NoSync: rd%2 == 1},
			2+rng.IntN(4), 1, func(int) int { return 300 + rng.IntN(600) }, 0))
		// batches closed by the background timer only
		ws = append(ws, mk(rng, "timer-sync-seq", vf13Cfg{Depth: 1, CountLimit: 128, SizeLimit: 1 << 20, Threshold: 4096, IntervalMs: 1 + rng.IntN(3)},
			2+rng.IntN(4), 1, small, 0))
		// count limit reached by concurrent writers
		ws = append(ws, mk(rng, "count-limit-conc", vf13Cfg{Depth: uint64(rng.IntN(3)), CountLimit: 2 + rng.IntN(3), SizeLimit: 1 << 20, Threshold: 4096, IntervalMs: 2 + rng.IntN(8)},
			6+rng.IntN(r.Pick(10, 40)), 3+rng.IntN(6), small, 0))
		// size limit reached after a few concurrent writes
		ws = append(ws, mk(rng, "size-limit-conc", vf13Cfg{Depth: 1, CountLimit: 128, SizeLimit: 900 + rng.IntN(600), Threshold: 4096, IntervalMs: 2 + rng.IntN(8), NoSync: rd%2 == 0},
			6+rng.IntN(r.Pick(10, 40)), 2+rng.IntN(7), func(int) int { return 100 + rng.IntN(400) }, 0))
		// everything mixed: single-file writes above the threshold, PutBatch, both limits, up to 300 calls
		thr := 700 + rng.IntN(800)
		ws = append(ws, mk(rng, "mixed-conc", vf13Cfg{Depth: uint64(rng.IntN(3)), CountLimit: 2 + rng.IntN(7), SizeLimit: 1500 + rng.IntN(3000), Threshold: thr, IntervalMs: 1 + rng.IntN(10)},
			r.Pick(20, 100)+rng.IntN(r.Pick(30, 200)), 2+rng.IntN(15), func(int) int {
				if rng.IntN(5) == 0 {
					return thr + rng.IntN(3000)
				}
				return 10 + rng.IntN(500)
			}, 7))
		// PutBatch only (writeBatch path)
		ws = append(ws, mk(rng, "putbatch-seq", vf13Cfg{Depth: 1, CountLimit: 8, SizeLimit: 1 << 20, Threshold: 4096, IntervalMs: 2},
			2+rng.IntN(2), 1, small, 1))
		// one single-file write after another
		ws = append(ws, mk(rng, "single-file-seq", vf13Cfg{Depth: 1, CountLimit: 1, SizeLimit: 1 << 20, Threshold: 4096, IntervalMs: 2, NoSync: rd%2 == 1},
			2+rng.IntN(3), 1, small, 0))
		// portable writer
		ws = append(ws, mk(rng, "generic-seq", vf13Cfg{Generic: true, Depth: 1, CountLimit: 128, SizeLimit: 1 << 20, Threshold: 4096, IntervalMs: 2},
			2+rng.IntN(3), 1, small, 3))
		// logical batch window: the sync interval is an hour, batches are closed by the count limit or by the
		// driver playing the timer; the calls are started one after the other, so every write that follows
		// another one before the window closes shares its batch file – also a write that follows a failed one
		ws = append(ws, vf13ScriptWorkload(rng, vf13Cfg{Depth: 1, CountLimit: 3 + rng.IntN(3), SizeLimit: 1 << 20, Threshold: 2048, IntervalMs: 3600_000, NoSync: rd%2 == 0}))
	}
	return ws
}

func vf13ScriptWorkload(rng *rand.Rand, cfg vf13Cfg) vf13Workload {
	w := vf13Workload{Family: "script-long-window", Cfg: cfg, Conc: 1, Script: true}
	n := 6 + rng.IntN(4)
	big, pb := -1, -1
	if rng.IntN(2) == 0 {
		big = 1 + rng.IntN(n-1) // one single-file write in between
	}
	if rng.IntN(2) == 0 {
		pb = 1 + rng.IntN(n-1) // one PutBatch (private batch file) in between
	}
	for i := 0; i < n; i++ {
		switch i {
		case big:
			w.Objs = append(w.Objs, vf13Obj{rng.Uint64(), rng.Uint64(), cfg.Threshold + 50 + rng.IntN(1500)})
			w.Items = append(w.Items, vf13Item{Objs: []int{len(w.Objs) - 1}})
		case pb:
			it := vf13Item{Batch: true}
			for j, m := 0, 2+rng.IntN(2); j < m; j++ {
				w.Objs = append(w.Objs, vf13Obj{rng.Uint64(), rng.Uint64(), 20 + rng.IntN(300)})
				it.Objs = append(it.Objs, len(w.Objs)-1)
			}
			w.Items = append(w.Items, it)
		default:
			w.Objs = append(w.Objs, vf13Obj{rng.Uint64(), rng.Uint64(), 20 + rng.IntN(600)})
			w.Items = append(w.Items, vf13Item{Objs: []int{len(w.Objs) - 1}})
		}
		if i < n-1 && rng.IntN(5) == 0 {
			w.Flush = append(w.Flush, i) // the timer fires after this call
		}
	}
	for i := 0; i < 20; i++ {
		pl := 30 + rng.IntN(300)
		if i%7 == 3 {
			pl = cfg.Threshold + 100 + rng.IntN(500)
		}
		w.Post = append(w.Post, vf13Obj{rng.Uint64(), rng.Uint64(), pl})
	}
	return w
}

// vf13Arm completes a fault point: the error to report and, for short writes, how much of the record is really missing.
func vf13Arm(rng *rand.Rand, f vf13Fault) vf13Fault {
	f.Errno = []int{int(syscall.ENOSPC), int(syscall.EIO)}[rng.IntN(2)]
	if strings.HasSuffix(f.Site, ".short") {
		switch rng.IntN(4) {
		case 0:
			f.Cut = 0 // one byte
		case 1:
			f.Cut = 1000 // nothing of the record arrived
		default:
			f.Cut = 1 + rng.IntN(999)
		}
	}
	return f
}

func TestVerif_C13(t *testing.T) {
	if spec, ok := verifkit.ChildSpec(); ok {
		vf13Child(t, spec)
		return
	}
	r := verifkit.Start(t, "C13", "fault_enumeration")
	defer r.Finish()
	if !verifhook.Enabled {
		r.Inconclusive("verifhook not compiled in")
		return
	}
	r.SetRule("workload families (each write crosses the size limit / timer-only sync / count limit under concurrency / size limit under concurrency / mixed with single files and PutBatch up to 300 calls on 2-16 goroutines / PutBatch / single-file / portable writer / scripted calls inside a logical batch window: sync interval 1 h, the driver starts the next call when the previous one passed its write step and plays the timer at seeded steps); short writes really leave a partial record (1 byte .. the whole record cut off the temporary file again); a dry run counts the calls of every fault site; cases = every single (site,k) for small workloads, sampled (site,k) for big ones, plus sampled pairs; a case is non-trivial when at least one injected failure really fired; distinct = (workload, fired sites with k)")
	r.Assume("fault model of hook commit H2: the failure is injected right after the real syscall; for open/link the effect of the real call is undone so the file system matches the reported failure; written bytes of a failed write stay in the (unlinked or trailing) temporary data; for a short write the harness cuts the missing bytes off the temporary file again (shared batch always; private batch / single file in the one-write-at-a-time families)")
	r.Assume("'not affected' is decided from the outside: no injected failure happened between the start and the return of the call")
	scratch := os.Getenv("VERIF_SCRATCH")
	if scratch == "" {
		scratch = t.TempDir()
	}
	root, err := os.MkdirTemp(scratch, "c13-")
	if err != nil {
		t.Fatal(err)
	}
	defer os.RemoveAll(root)

	ws := vf13Workloads(r)
	// dry runs
	var dry []vf13Case
	for i := range ws {
		dry = append(dry, vf13Case{Idx: i, W: i})
	}
	dryRes := vf13Exec(r, root, "dry", ws, dry, 4)
	var cases []vf13Case
	for wi := range ws {
		dr, ok := dryRes[wi]
		if !ok || dr.Outcome != "ok" || len(dr.Viol) > 0 {
			r.Inconclusive(fmt.Sprintf("dry run of workload %d (%s) did not pass cleanly: %+v", wi, ws[wi].Family, dr))
			continue
		}
		r.Count("workloads|"+ws[wi].Family, 1)
		r.Count("dry_calls", len(ws[wi].Items))
		r.Max("max_calls_in_a_workload", int64(len(ws[wi].Items)))
		r.Max("max_goroutines", int64(ws[wi].Conc))
		r.Count("dry_batches_closed_by_writer", dr.RotWriter)
		r.Count("dry_batches_closed_by_timer", dr.RotTimer)
		rng := r.Rand("faults", wi)
		var pts []vf13Fault
		sites := make([]string, 0, len(dr.Sites))
		for s := range dr.Sites {
			sites = append(sites, s)
		}
		sort.Strings(sites)
		for _, s := range sites {
			for k := 1; k <= dr.Sites[s]; k++ {
				pts = append(pts, vf13Fault{Site: s, K: k})
			}
		}
		r.Count("fault_points_in_dry_runs", len(pts))
		singles := pts
		maxSingles := r.Pick(36, 150)
		if len(singles) > maxSingles && !ws[wi].Script { // script workloads are small and cheap: all singles
			// keep the first and the last call of every site, sample the rest
			keep := map[int]bool{}
			for i, p := range pts {
				if p.K == 1 || p.K == dr.Sites[p.Site] {
					keep[i] = true
				}
			}
			for len(keep) < maxSingles {
				keep[rng.IntN(len(pts))] = true
			}
			singles = nil
			for i, p := range pts {
				if keep[i] {
					singles = append(singles, p)
				}
			}
		}
		for _, p := range singles {
			cases = append(cases, vf13Case{W: wi, Faults: []vf13Fault{vf13Arm(rng, p)}})
		}
		nPairs := r.Pick(10, 60)
		if all := len(pts) * (len(pts) - 1) / 2; all <= nPairs {
			for a := 0; a < len(pts); a++ {
				for b := a + 1; b < len(pts); b++ {
					fa, fb := vf13Arm(rng, pts[a]), vf13Arm(rng, pts[b])
					cases = append(cases, vf13Case{W: wi, Faults: []vf13Fault{fa, fb}})
				}
			}
		} else {
			seen := map[[2]int]bool{}
			for len(seen) < nPairs {
				a, b := rng.IntN(len(pts)), rng.IntN(len(pts))
				if a == b || seen[[2]int{min(a, b), max(a, b)}] {
					continue
				}
				seen[[2]int{min(a, b), max(a, b)}] = true
				fa, fb := vf13Arm(rng, pts[a]), vf13Arm(rng, pts[b])
				cases = append(cases, vf13Case{W: wi, Faults: []vf13Fault{fa, fb}})
			}
		}
		if wi < 3 {
			r.Sample(map[string]any{"workload": wi, "family": ws[wi].Family, "cfg": ws[wi].Cfg, "calls": len(ws[wi].Items), "goroutines": ws[wi].Conc, "fault_site_calls": dr.Sites})
		}
	}
	for i := range cases {
		cases[i].Idx = i
	}
	r.Count("cases_single_fault", vf13CountFaults(cases, 1))
	r.Count("cases_double_fault", vf13CountFaults(cases, 2))
	results := vf13Exec(r, root, "faults", ws, cases, r.Pick(4, 6))
	for _, cs := range cases {
		res, ok := results[cs.Idx]
		if !ok {
			continue // already reported by vf13Exec
		}
		w := ws[cs.W]
		r.Eval(1)
		if len(res.Fired) > 0 {
			sig := fmt.Sprintf("%d", cs.W)
			for _, f := range cs.Faults {
				sig += fmt.Sprintf("|%s#%d", f.Site, f.K)
			}
			r.Distinct(sig + fmt.Sprint(res.Fired))
			r.Count("cases_with_fired_fault", 1)
		} else {
			r.Count("cases_fault_not_reached", 1)
		}
		for _, f := range res.Fired {
			r.Count("fault_fired|"+f, 1)
		}
		r.Count("calls_returned_ok", res.PutsOK)
		r.Count("calls_returned_error", res.PutsErr)
		r.Count("calls_unaffected_checked", res.Unaffected)
		r.Count("later_writes_ok", res.PostOK)
		r.Count("failed_calls_whose_object_is_readable", res.ErrReadOK)
		r.Count("batches_closed_by_writer", res.RotWriter)
		r.Count("batches_closed_by_timer", res.RotTimer)
		for k, v := range res.ShortReal {
			r.Count("short_writes_bytes_really_missing|"+k, v)
		}
		r.Count("short_writes_count_only", res.ShortFake)
		r.Count("script_calls_started_in_logical_window", res.ScriptStep)
		r.Count("script_timer_played_by_driver", res.TimerFires)
		r.Seen("outcomes", res.Outcome)
		for _, s := range res.ErrShapes {
			r.Seen("error_shapes", s)
		}
		desc := map[string]any{"case": cs, "family": w.Family, "cfg": w.Cfg, "calls": len(w.Items), "goroutines": w.Conc, "fired": res.Fired, "detail": res.Detail}
		for _, v := range res.Viol {
			r.Violation(v.Key, v.What, desc)
		}
		if res.Outcome == "hang" {
			r.Inconclusive(fmt.Sprintf("case %d (%s, faults %v): %s", cs.Idx, w.Family, cs.Faults, strings.SplitN(res.Detail, "\n", 2)[0]))
		}
	}
}

func vf13CountFaults(cs []vf13Case, n int) int {
	c := 0
	for _, x := range cs {
		if len(x.Faults) == n {
			c++
		}
	}
	return c
}

// vf13Exec runs the cases in child processes (par at a time), restarting after every
// child that ended inside a case.  A child that died is judged here: the panic / fatal
// error text is the witness and the case in progress gets the violation.
func vf13Exec(r *verifkit.Run, root, tag string, ws []vf13Workload, cases []vf13Case, par int) map[int]vf13Result {
	out := map[int]vf13Result{}
	var mu sync.Mutex
	var wg sync.WaitGroup
	byIdx := map[int]vf13Case{}
	for _, c := range cases {
		byIdx[c.Idx] = c
	}
	parts := make([][]vf13Case, par)
	for i, c := range cases {
		parts[i%par] = append(parts[i%par], c)
	}
	for pi, part := range parts {
		wg.Add(1)
		go func() {
			defer wg.Done()
			pending := part
			for gen := 0; len(pending) > 0; gen++ {
				n := min(len(pending), 40)
				base := filepath.Join(root, fmt.Sprintf("%s-%d-%d", tag, pi, gen))
				_ = os.MkdirAll(base, 0o755)
				ch := vf13Chunk{Base: base, Results: filepath.Join(base, "results.jsonl"), Workloads: ws, Cases: pending[:n]}
				b, _ := json.Marshal(ch)
				spec := filepath.Join(base, "chunk.json")
				_ = os.WriteFile(spec, b, 0o644)
				cr := verifkit.SpawnChild("TestVerif_C13", spec, nil, 15*time.Minute)
				mu.Lock()
				r.Count("child_processes", 1)
				mu.Unlock()
				started, finished := -1, map[int]bool{}
				for _, l := range verifkit.ReadJournal(ch.Results) {
					var res vf13Result
					if json.Unmarshal([]byte(l), &res) != nil {
						continue
					}
					if res.Start != nil {
						started = *res.Start
					}
					if res.Done != nil {
						finished[*res.Done] = true
						mu.Lock()
						out[*res.Done] = res
						mu.Unlock()
					}
				}
				var rest []vf13Case
				for _, c := range pending {
					if !finished[c.Idx] && c.Idx != started {
						rest = append(rest, c)
					}
				}
				if started >= 0 && !finished[started] {
					// the child ended inside case `started`
					cs := byIdx[started]
					w := ws[cs.W]
					desc := map[string]any{"case": cs, "family": w.Family, "cfg": w.Cfg, "calls": len(w.Items), "goroutines": w.Conc, "child_exit": cr.ExitCode, "child_signal": cr.Signal.String(), "child_output_tail": vf13Tail(cr.Output, 6000)}
					msg, where := vf13PanicOf(cr.Output)
					mu.Lock()
					r.Eval(1)
					switch {
					case cr.TimedOut:
						r.Inconclusive(fmt.Sprintf("child of case %d (%s, faults %v) hit the watchdog", started, w.Family, cs.Faults))
					case msg != "":
						r.Count("cases_process_died", 1)
						r.Seen("outcomes", "process-died")
						r.Distinct(fmt.Sprintf("died|%d|%v", cs.W, cs.Faults))
						r.Violation("process-died|"+msg+"|"+where, fmt.Sprintf("the process died while writing under injected failures %v (%s): %s at %s", cs.Faults, w.Family, msg, where), desc)
					default:
						r.Inconclusive(fmt.Sprintf("child of case %d (%s, faults %v) ended without a verdict: exit=%d signaled=%v out=%s", started, w.Family, cs.Faults, cr.ExitCode, cr.Signaled, vf13Tail(cr.Output, 800)))
					}
					mu.Unlock()
				} else if cr.ExitCode != 0 && cr.ExitCode != vf13ExitInterrupted || cr.TimedOut {
					if len(rest) == len(pending) { // no progress at all: do not loop forever
						mu.Lock()
						r.Inconclusive(fmt.Sprintf("child %s-%d-%d made no progress: exit=%d timeout=%v out=%s", tag, pi, gen, cr.ExitCode, cr.TimedOut, vf13Tail(cr.Output, 800)))
						mu.Unlock()
						rest = nil
					}
				}
				_ = os.RemoveAll(base)
				pending = rest
			}
		}()
	}
	wg.Wait()
	return out
}

func vf13Tail(s string, n int) string {
	if len(s) > n {
		s = s[len(s)-n:]
	}
	return s
}

// vf13PanicOf extracts "panic: <msg>" / "fatal error: <msg>" and the innermost two
// repository frames of the goroutine that died.
func vf13PanicOf(out string) (msg, where string) {
	i := strings.Index(out, "\npanic: ")
	tag := "panic: "
	if i < 0 && strings.HasPrefix(out, "panic: ") {
		i = -1
	} else if i < 0 {
		i = strings.Index(out, "\nfatal error: ")
		tag = "fatal error: "
		if i < 0 {
			return "", ""
		}
	}
	rest := out[i+1:]
	line, after, _ := strings.Cut(rest, "\n")
	msg = strings.TrimPrefix(line, tag)
	if j := strings.Index(msg, " [recovered]"); j > 0 {
		msg = msg[:j]
	}
	var fr []string
	blk, _, _ := strings.Cut(after, "\n\ngoroutine ")
	if k := strings.Index(after, "goroutine "); k >= 0 {
		blk, _, _ = strings.Cut(after[k:], "\n\n")
	}
	for _, l := range strings.Split(blk, "\n") {
		if strings.HasPrefix(l, "\t") || !strings.Contains(l, "neofs-node/") || strings.Contains(l, "zz_verif") || strings.Contains(l, ".vf13") || strings.Contains(l, "TestVerif") {
			continue
		}
		fn := l
		if p := strings.LastIndex(fn, "("); p > 0 {
			fn = fn[:p]
		}
		if p := strings.LastIndex(fn, "/"); p >= 0 {
			fn = fn[p+1:]
		}
		fr = append(fr, fn)
		if len(fr) == 2 {
			break
		}
	}
	return msg, strings.Join(fr, "<-")
}

var _ = errors.Is
