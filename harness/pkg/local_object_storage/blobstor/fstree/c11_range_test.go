//go:build verif

package fstree

// C11, blob-storage part: payload range reads of the real FSTree against the reference
// range semantics of internal/vf11 (written from the property statement), for objects
// stored as plain files, as members of combined files written by the real batch writer,
// as hand-planted zstd files and as (compressed) members of hand-planted combined files.

import (
	"fmt"
	"io"
	"math/rand/v2"
	"testing"
	"time"

	"github.com/nspcc-dev/neofs-node/internal/verifkit"
	"github.com/nspcc-dev/neofs-node/internal/vf11"
	"github.com/nspcc-dev/neofs-node/pkg/local_object_storage/blobstor/common"
	oid "github.com/nspcc-dev/neofs-sdk-go/object/id"
)

type vf11Store struct {
	t     *testing.T
	r     *verifkit.Run
	root  string
	depth int
	fsC   *FSTree // default combined settings (reads, batch writes)
	fsP   *FSTree // combined count limit 1: writes plain files
}

func vf11Open(t *testing.T, r *verifkit.Run, depth int) *vf11Store {
	s := &vf11Store{t: t, r: r, root: t.TempDir(), depth: depth}
	s.fsC = New(WithPath(s.root), WithDepth(uint64(depth)), WithNoSync(true))
	s.fsP = New(WithPath(s.root), WithDepth(uint64(depth)), WithNoSync(true), WithCombinedCountLimit(1))
	for _, f := range []*FSTree{s.fsC, s.fsP} {
		if err := f.Open(false); err != nil {
			t.Fatal(err)
		}
		if err := f.Init(common.ID{}); err != nil {
			t.Fatal(err)
		}
	}
	r.Seen("writers_used", fmt.Sprintf("%T", s.fsC.writer))
	return s
}

// storeAll stores five copies (distinct addresses) of the payloads in all formats:
// group[i] lists, per payload i, the objects to run requests on.
func (s *vf11Store) storeAll(mk func(format string, i int) *vf11.Obj, n int) [][]*vf11.Obj {
	out := make([][]*vf11.Obj, n)
	add := func(i int, o *vf11.Obj, format string) {
		o.Format = format
		out[i] = append(out[i], o)
	}
	fail := func(err error) {
		if err != nil {
			s.t.Fatalf("harness store: %v", err)
		}
	}
	batch := map[oid.Address][]byte{}
	var planted, plantedZ []*vf11.Obj
	for i := 0; i < n; i++ {
		o := mk("plain", i)
		fail(s.fsP.Put(o.Addr, o.Bin))
		add(i, o, "plain")

		o = mk("combined-batch", i)
		batch[o.Addr] = o.Bin
		add(i, o, "combined-batch")

		o = mk("combined-single", i)
		fail(s.fsC.PutBatch(map[oid.Address][]byte{o.Addr: o.Bin}))
		add(i, o, "combined-single")

		o = mk("zstd", i)
		fail(vf11.PlantFile(s.root, s.depth, o.Addr, vf11.Zstd(o.Bin)))
		add(i, o, "zstd")

		o = mk("combined-planted", i)
		planted = append(planted, o)
		add(i, o, "combined-planted")

		o = mk("combined+zstd", i)
		plantedZ = append(plantedZ, o)
		add(i, o, "combined+zstd")

		if len(batch) >= 7 || i == n-1 {
			fail(s.fsC.PutBatch(batch))
			batch = map[oid.Address][]byte{}
		}
		if len(planted) >= 5 || i == n-1 {
			fail(vf11.PlantCombined(s.root, s.depth, planted, make([]bool, len(planted))))
			planted = nil
			// compressed and uncompressed members interleaved in one file
			all := append([]*vf11.Obj(nil), plantedZ...)
			comp := make([]bool, len(all))
			for j := range comp {
				comp[j] = true
			}
			if len(all) > 1 {
				filler := mk("filler", i)
				filler.Format = "combined-planted"
				out[i] = append(out[i], filler)
				all = append(all[:1], append([]*vf11.Obj{filler}, all[1:]...)...)
				comp = append(comp[:1], append([]bool{false}, comp[1:]...)...)
			}
			fail(vf11.PlantCombined(s.root, s.depth, all, comp))
			plantedZ = nil
		}
	}
	return out
}

// ask runs one request through the three range APIs of the FSTree.
func (s *vf11Store) ask(o *vf11.Obj, req vf11.Req, k int) {
	r := s.r
	rng := r.Rand("read", k)
	desc := map[string]any{"request": req.String(), "addr": o.Addr.String(), "format": o.Format, "payload_len": len(o.Payload)}
	withHook := k%2 == 1
	var calls int
	var hook func([]byte) error
	if withHook {
		hook = vf11.Intercept(&calls)
	}
	sig := func(api string) {
		r.Distinct(fmt.Sprintf("%s|%s|%s|%s|%s|hook=%v", api, o.Format, vf11.LenClass(o), vf11.ModeName(req.Mode), vf11.ReqClass(req, uint64(len(o.Payload))), withHook))
	}

	r.Guard(desc, func() {
		_, _, stream, err := s.fsC.GetRangeStream(o.Addr, req.Range(), withHook)
		vf11.Judge(r, "fstree", "GetRangeStream", o, req, vf11.StreamAnswer(rng, stream, err))
		r.Eval(1)
		sig("GetRangeStream")
	})
	if req.Mode == common.PayloadRangeModeOffsetLength {
		r.Guard(desc, func() {
			buf := make([]byte, 2*vf11.NPFBL+int(rng.IntN(3))*1000)
			var stream io.ReadCloser
			stream, err := s.fsC.ReadPayloadRange(o.Addr, req.A, req.B, buf, hook)
			vf11.Judge(r, "fstree", "ReadPayloadRange", o, req, vf11.StreamAnswer(rng, stream, err))
			r.Eval(1)
			sig("ReadPayloadRange")
		})
	}
	r.Guard(desc, func() {
		buf := make([]byte, 2*vf11.NPFBL+int(rng.IntN(3))*1000)
		n, stream, err := s.fsC.ReadObjectParts(buf, o.Addr, req.Range(), hook)
		vf11.Judge(r, "fstree", "ReadObjectParts", o, req, vf11.PartsAnswer(rng, req, buf, n, stream, err))
		r.Eval(1)
		sig("ReadObjectParts")
	})
	if withHook {
		r.Count("header_interceptions", calls)
	}
}

// call draws one range read of a random API on a random object of objs (overlap phases).
func (s *vf11Store) call(rng *rand.Rand, objs []*vf11.Obj) vf11.Call {
	o := objs[rng.IntN(len(objs))]
	req := vf11.RandReq(rng, o)
	withHook := rng.IntN(2) == 0
	var hook func([]byte) error
	if withHook {
		var calls int
		hook = vf11.Intercept(&calls)
	}
	bufLen := 2*vf11.NPFBL + rng.IntN(3)*1000
	c := vf11.Call{Layer: "fstree", O: o, Req: req}
	api := rng.IntN(3)
	if api == 1 && req.Mode != common.PayloadRangeModeOffsetLength {
		api = 0
	}
	switch api {
	case 0:
		c.API = "GetRangeStream"
		c.Open = func() (io.ReadCloser, func() []byte, error) {
			_, _, stream, err := s.fsC.GetRangeStream(o.Addr, req.Range(), withHook)
			return stream, nil, err
		}
	case 1:
		c.API = "ReadPayloadRange"
		c.Open = func() (io.ReadCloser, func() []byte, error) {
			var stream io.ReadCloser
			stream, err := s.fsC.ReadPayloadRange(o.Addr, req.A, req.B, make([]byte, bufLen), hook)
			return stream, nil, err
		}
	default:
		c.API = "ReadObjectParts"
		c.Open = func() (io.ReadCloser, func() []byte, error) {
			buf := make([]byte, bufLen)
			n, stream, err := s.fsC.ReadObjectParts(buf, o.Addr, req.Range(), hook)
			return vf11.PartsOpen(req, buf, n, stream, err)
		}
	}
	return c
}

func vf11Flatten(groups [][]*vf11.Obj) []*vf11.Obj {
	var out []*vf11.Obj
	for _, g := range groups {
		out = append(out, g...)
	}
	return out
}

func TestVerif_C11(t *testing.T) {
	r := verifkit.Start(t, "C11", "exploration")
	defer r.Finish()
	started := time.Now() // for log lines only, never for a verdict
	var small []int
	if r.Thorough() {
		for l := 0; l <= 64; l++ {
			small = append(small, l)
		}
	} else {
		small = []int{0, 1, 2, 3, 7, 31, 64}
	}
	nBig, nDirected, nMB := r.Pick(10, 60), r.Pick(120, 300), r.Pick(3, 10)
	r.SetRule(fmt.Sprintf("payload lengths %v: every request of the four modes with both values in 0..len+2, plus values near 2^31/2^32/2^63/2^64; %d larger payloads (up to 100 KiB; object lengths aimed at the 20 KiB buffered prefix, twice that, and compressed forms below/above it) with %d requests each whose ends are aimed at the buffered-prefix boundaries and the payload end; every object stored as plain file, batch-written combined member, single-member combined file, zstd file, planted combined member and compressed combined member; every request through GetRangeStream, ReadPayloadRange (offset/length) and ReadObjectParts, with and without header interception; distinct = (api, format, object length class, mode, request shape, interception); %d compressed objects whose zstd frame has many blocks (payloads of 0.3..1.5 MiB made of compressible / incompressible segments, compressed the way old nodes did, so that up to ten blocks begin inside the buffered first 20 KiB of the file), stored as zstd files and compressed combined members, with requests aimed at block / segment / buffering boundaries. Besides one-at-a-time requests: batches of 2..8 range reads (random API/object/format, ends aimed at the same boundaries) whose answers have overlapping lifetimes under a seeded schedule (issue next call / read a chunk or the rest of an open answer / abandon and close early / close late), and rounds of 24 reads from 4 goroutines; every answer judged by the same resolver; distinct there = (api, format, length class, outcome, number of calls issued during the answer's life, abandoned)", small, nBig, nDirected, nMB))

	cnr, owner := verifkit.RandCID(r.Rand("ids", 0)), verifkit.RandUser(r.Rand("ids", 1))
	k := 0

	// 1. exhaustive small payloads
	st := vf11Open(t, r, int(r.Rand("depth", 0).IntN(5)))
	payloads := make([][]byte, len(small))
	for i, l := range small {
		payloads[i] = vf11.Payload(r.Rand("payload", i), l, false)
	}
	groups := st.storeAll(func(format string, i int) *vf11.Obj {
		return vf11.NewObj(r.Rand("obj-"+format, i), cnr, owner, payloads[i], small[i]%3)
	}, len(small))
	for i, l := range small {
		reqs := append(vf11.Exhaustive(l), vf11.Huge(uint64(l), r.Rand("huge", i))...)
		for _, o := range groups[i] {
			if !r.Thorough() && l > 40 && (o.Format == "combined-single" || o.Format == "combined-planted") {
				continue // quick tier: the longest enumeration runs on four of the six formats
			}
			r.Seen("formats", o.Format)
			for _, req := range reqs {
				st.ask(o, req, k)
				k++
			}
		}
		r.Count("small_payload_lengths_enumerated", 1)
	}
	// 1b. answers with overlapping lifetimes / concurrent requests on the small objects
	smallObjs := vf11Flatten(groups)
	vf11.OverlapPhase(r, "small", 0, r.Pick(100, 800), r.Pick(2, 10), func(rng *rand.Rand) vf11.Call { return st.call(rng, smallObjs) })
	if r.Thorough() {
		r.Assume("exhaustive for payload lengths 0..64 and request values 0..len+2 in all four modes")
	}

	// 2. larger payloads, boundary-directed requests
	for b := 0; b < nBig; b++ {
		rng := r.Rand("big", b)
		st := vf11Open(t, r, rng.IntN(5))
		hk := rng.IntN(3)
		compressible := rng.IntN(2) == 0
		// choose the payload length so that the object length hits an interesting value
		probe := vf11.NewObj(r.Rand("probe", b), cnr, owner, nil, hk)
		base := len(probe.Bin)
		var total int
		switch c := b % 10; c {
		case 0:
			total = vf11.NPFBL
		case 1:
			total = vf11.NPFBL + 1
		case 2:
			total = vf11.NPFBL - 1
		case 3:
			total = 2 * vf11.NPFBL
		case 4:
			total = 2*vf11.NPFBL + 1
		case 5:
			total = 45<<10 + rng.IntN(50<<10) // compressible ones: small compressed file, large object
			compressible = true
		default:
			total = base + 1 + rng.IntN(100<<10)
		}
		pl := total - base - 4
		if pl < 1 {
			pl = 1 + rng.IntN(3000)
		}
		payload := vf11.Payload(r.Rand("bigpayload", b), pl, compressible)
		// adjust to the exact object length where possible
		for range 4 {
			o := vf11.NewObj(r.Rand("probe", b), cnr, owner, payload, hk)
			if d := total - len(o.Bin); d != 0 && len(payload)+d > 0 && b%10 <= 4 {
				payload = vf11.Payload(r.Rand("bigpayload", b), len(payload)+d, compressible)
				continue
			}
			break
		}
		big2 := vf11.Payload(r.Rand("big2payload", b), 21<<10+r.Rand("big2len", b).IntN(70<<10), false)
		groups := st.storeAll(func(format string, i int) *vf11.Obj {
			if i == 0 {
				return vf11.NewObj(r.Rand("bigobj-"+format, b), cnr, owner, payload, hk)
			}
			if i == 3 {
				// a second large object with other (incompressible) contents: overlapping
				// answers on two different objects that are both streamed from their files
				return vf11.NewObj(r.Rand("big2-"+format, b), cnr, owner, big2, (hk+1)%3)
			}
			// neighbours inside the same combined files
			return vf11.NewObj(r.Rand("nb-"+format, b*10+i), cnr, owner, vf11.Payload(r.Rand("nbp", b*10+i), 10+rng.IntN(3000), false), 0)
		}, 4)
		for _, o := range groups[0] {
			L := uint64(len(o.Payload))
			huge := vf11.Huge(L, r.Rand("hugebig", b))
			r.Rand("hugepick", b).Shuffle(len(huge), func(i, j int) { huge[i], huge[j] = huge[j], huge[i] })
			reqs := append(vf11.Directed(L, vf11.Marks(o), r.Rand("directed", b), nDirected), huge[:r.Pick(100, 400)]...)
			for _, req := range reqs {
				st.ask(o, req, k)
				k++
			}
			r.Seen("big_object_length_classes", vf11.LenClass(o))
			if b < 3 && o.Format == "plain" {
				r.Sample(map[string]any{"object_len": len(o.Bin), "payload_len": L, "payload_start": o.PStart, "marks": vf11.Marks(o), "first_requests": fmt.Sprint(reqs[:6])})
			}
		}
		// 2b. overlapping / concurrent answers on this store: the big object in all formats and its neighbours
		bigObjs := vf11Flatten(groups)
		bigObjs = append(append(bigObjs, groups[0]...), groups[0]...) // the big one three times as likely
		bigObjs = append(bigObjs, groups[3]...)                       // the second large one twice
		vf11.OverlapPhase(r, "big", b*1000, r.Pick(60, 150), 1, func(rng *rand.Rand) vf11.Call { return st.call(rng, bigObjs) })
		r.Count("big_objects", 1)
		r.Max("max_payload_len", int64(len(payload)))
	}

	t.Logf("sections 1-2 done after %v (log only)", time.Since(started))
	// 3. compressed objects whose frame has many blocks (vf11/c11_multiblock.go): the
	// storage keeps decoding compressed bytes it has buffered while the answer is consumed
	st = vf11Open(t, r, int(r.Rand("depth", 1).IntN(5)))
	files, members := vf11.MultiBlockSet(r, "fstree", cnr, owner, nMB)
	if err := vf11.PlantMultiBlock(st.root, st.depth, files, members); err != nil {
		t.Fatalf("harness store: %v", err)
	}
	mb := append(append([]*vf11.Obj(nil), files...), members...)
	for i, o := range mb {
		r.Seen("formats", o.Format)
		for _, req := range vf11.MultiBlockReqs(r, "fstree", i, o, nDirected) {
			st.ask(o, req, k)
			k++
		}
	}
	t.Logf("section 3 one-at-a-time done after %v (log only)", time.Since(started))
	vf11.OverlapPhase(r, "multiblock", 0, r.Pick(60, 300), 1, func(rng *rand.Rand) vf11.Call { return st.call(rng, mb) })
	t.Logf("section 3 done after %v (log only)", time.Since(started))
}
