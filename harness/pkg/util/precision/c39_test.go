//go:build verif

package precision

import (
	"fmt"
	"math/big"
	"testing"

	"github.com/nspcc-dev/neofs-node/internal/verifkit"
)

var (
	vf39Two53   = new(big.Int).Lsh(big.NewInt(1), 53)
	vf39MaxI64  = new(big.Int).SetInt64(1<<63 - 1)
	vf39MinI64  = new(big.Int).SetInt64(-1 << 63)
	vf39Ten     = big.NewInt(10)
	vf39Samples = 0
)

func vf39Pow10(n int) *big.Int { return new(big.Int).Exp(vf39Ten, big.NewInt(int64(n)), nil) }

func vf39Fits(x *big.Int) bool { return x.Cmp(vf39MaxI64) <= 0 && x.Cmp(vf39MinI64) >= 0 }

// vf39Ref converts x from precision `from` to precision `to`: exact multiplication when the
// precision grows, division rounding towards minus infinity (never creating value) when it shrinks.
func vf39Ref(from, to int, x *big.Int) *big.Int {
	if to >= from {
		return new(big.Int).Mul(x, vf39Pow10(to-from))
	}
	q, m := new(big.Int).DivMod(x, vf39Pow10(from-to), new(big.Int)) // Euclidean: m >= 0 → q = floor
	_ = m
	return q
}

func vf39MagClass(x int64) string {
	a := x
	if a < 0 {
		a = -a
	}
	switch {
	case a == 0:
		return "0"
	case a < 10:
		return "1digit"
	case a < 1e8:
		return "<1e8"
	case a < 1e12:
		return "<1e12"
	case a < 1<<52:
		return "<2^52"
	default:
		return "<2^53"
	}
}

// TestVerif_C39 monitors the real Fixed8Converter / Convert against a big-integer reference
// over boundary-directed and seeded random amounts below 2^53 for every precision 0..18.
func TestVerif_C39(t *testing.T) {
	r := verifkit.Start(t, "C39", "exploration")
	defer r.Finish()
	r.SetRule("precisions 0..18 x amounts {0,±1,10^k±1,2^k±1 (k<53),2^53-1, seeded random below 2^53}; each amount goes Fixed8->balance->Fixed8 and through Convert both ways; distinct = (precision, sign, magnitude class, direction) of a case whose amount is non-zero")
	r.Assume("supported range = |amount| < 2^53 (property text); precisions 0..18 (10^|p-8| fits int64)")

	var amounts []int64
	add := func(v int64) {
		if v > -(1<<53) && v < 1<<53 {
			amounts = append(amounts, v, -v)
		}
	}
	add(0)
	p10 := int64(1)
	for k := 0; k <= 15; k++ {
		add(p10 - 1)
		add(p10)
		add(p10 + 1)
		add(p10*5 - 1)
		p10 *= 10
	}
	for k := 1; k < 53; k++ {
		add(1<<k - 1)
		add(1 << k)
		add(1<<k + 1)
	}
	add(1<<53 - 1)
	add(1<<53 - 2)
	add(922337203685477) // floor(maxInt64 / 10^4)
	add(922337203685478)
	add(92233720368547)
	add(92233720368548)
	nrand := r.Pick(20000, 400000)
	rng := r.Rand("amounts", 0)
	for i := 0; i < nrand; i++ {
		bits := 1 + rng.IntN(53)
		v := int64(rng.Uint64() >> (64 - bits))
		if rng.IntN(4) == 0 {
			v = -v
		}
		add(v)
	}

	for prec := 0; prec <= 18; prec++ {
		c := NewConverter(uint32(prec))
		for _, x := range amounts {
			r.Eval(1)
			bx := big.NewInt(x)
			desc := map[string]any{"precision": prec, "amount": x}
			sign := "pos"
			if x < 0 {
				sign = "neg"
			}
			// --- Fixed8 -> balance precision
			refB := vf39Ref(8, prec, bx)
			var gotB int64
			if r.Guard(desc, func() { gotB = c.ToBalancePrecision(x) }) {
				continue
			}
			if !vf39Fits(refB) {
				// the exact result cannot be represented: anything the int64 API returns is a silent overflow
				r.Violation("silent-int64-wrap|ToBalancePrecision", fmt.Sprintf("ToBalancePrecision(%d) at precision %d returned %d, exact result %s does not fit int64 and no error is signalled", x, prec, gotB, refB), desc)
				r.Count("to_balance_unrepresentable", 1)
				continue
			}
			if gotB != refB.Int64() {
				key := "wrong-value|ToBalancePrecision"
				if (gotB < 0) != (refB.Sign() < 0) && gotB != 0 {
					key = "sign-flip|ToBalancePrecision"
				}
				r.Violation(key, fmt.Sprintf("ToBalancePrecision(%d) at precision %d = %d, reference %s", x, prec, gotB, refB), desc)
				continue
			}
			r.Count("to_balance_ok", 1)
			// --- and back
			refF := vf39Ref(prec, 8, refB)
			var gotF int64
			if r.Guard(desc, func() { gotF = c.ToFixed8(gotB) }) {
				continue
			}
			if !vf39Fits(refF) {
				r.Violation("silent-int64-wrap|ToFixed8", fmt.Sprintf("ToFixed8(%d) at precision %d: exact %s does not fit", gotB, prec, refF), desc)
				continue
			}
			if gotF != refF.Int64() {
				r.Violation("wrong-value|ToFixed8", fmt.Sprintf("ToFixed8(%d) at precision %d = %d, reference %s", gotB, prec, gotF, refF), desc)
				continue
			}
			if gotF > x {
				r.Violation("round-trip-creates-value", fmt.Sprintf("Fixed8 %d -> %d (precision %d) -> %d > original", x, gotB, prec, gotF), desc)
			}
			if prec >= 8 && gotF != x {
				r.Violation("round-trip-not-exact", fmt.Sprintf("Fixed8 %d -> %d (precision %d) -> %d, must be exact when target precision >= 8", x, gotB, prec, gotF), desc)
			}
			if prec < 8 && x >= 0 && x-gotF >= vf39Pow10(8-prec).Int64() {
				r.Violation("round-trip-loses-more-than-one-unit", fmt.Sprintf("Fixed8 %d -> %d -> %d loses a whole target unit", x, gotB, gotF), desc)
			}
			r.Count("round_trip_ok", 1)
			if gotF != x {
				r.Count("round_trip_lossy_but_not_more", 1)
			}
			if x != 0 {
				r.Distinct(fmt.Sprintf("fx8>bal|%d|%s|%s", prec, sign, vf39MagClass(x)))
			}
			// --- a balance-precision amount below 2^53 converted to Fixed8 directly (withdraw/cheque path)
			refD := vf39Ref(prec, 8, bx)
			var gotD int64
			if r.Guard(desc, func() { gotD = c.ToFixed8(x) }) {
				continue
			}
			if !vf39Fits(refD) {
				r.Violation("silent-int64-wrap|ToFixed8", fmt.Sprintf("ToFixed8(%d) at precision %d returned %d, exact result %s does not fit int64", x, prec, gotD, refD), desc)
				r.Count("to_fixed8_unrepresentable", 1)
			} else if gotD != refD.Int64() {
				r.Violation("wrong-value|ToFixed8", fmt.Sprintf("ToFixed8(%d) at precision %d = %d, reference %s", x, prec, gotD, refD), desc)
			} else {
				r.Count("to_fixed8_ok", 1)
				if x != 0 {
					r.Distinct(fmt.Sprintf("bal>fx8|%d|%s|%s", prec, sign, vf39MagClass(x)))
				}
			}
			// --- generic Convert (big.Int, cannot wrap): exact up, never more down
			for _, other := range []int{0, 8, 12, 18} {
				up := Convert(uint32(prec), uint32(other), bx)
				if up.Cmp(vf39Ref(prec, other, bx)) != 0 {
					r.Violation("wrong-value|Convert", fmt.Sprintf("Convert(%d,%d,%d)=%s reference %s", prec, other, x, up, vf39Ref(prec, other, bx)), desc)
				}
				back := Convert(uint32(other), uint32(prec), up)
				if x >= 0 && back.Cmp(bx) > 0 {
					r.Violation("round-trip-creates-value|Convert", fmt.Sprintf("Convert %d: %d->%d->%d gives %s", x, prec, other, prec, back), desc)
				}
				if other >= prec && back.Cmp(bx) != 0 {
					r.Violation("round-trip-not-exact|Convert", fmt.Sprintf("Convert %d: %d->%d->%d gives %s", x, prec, other, prec, back), desc)
				}
			}
			if vf39Samples < 6 && x > 1000 && prec%5 == 1 {
				vf39Samples++
				r.Sample(map[string]any{"precision": prec, "fixed8": x, "balance": gotB, "back": gotF})
			}
		}
	}
	r.Count("amounts_per_precision", len(amounts))
}
